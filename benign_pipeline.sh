#!/bin/bash
# usage: benign_pipeline.sh <b> <prop> [<prop> ...] — apply a benign (property-preserving) change to /repo, run the
# listed checks (quick), undo it; any VIOLATION or non-zero exit here is a FALSE ALARM of the machinery.
B="$1"; shift; D=/tmp/seed-benign/$B
cd /verif
(
flock 9
if ! git -C /repo diff --quiet; then echo "/repo dirty"; exit 2; fi
git -C /repo apply "$D/patch.diff" || { echo "$B does not apply"; exit 2; }
for PROP in "$@"; do
  START=$(date +%s)
  VERIF_EVIDENCE_DIR=/tmp/mutant-evidence ./check "$PROP" quick > "$D/check-$PROP.out" 2>&1; RC=$?
  END=$(date +%s)
  echo "$B $PROP -> exit $RC ($((END-START)) s) $(grep -E 'VIOLATION|class=|harness error' "$D/check-$PROP.out" | head -3 | tr '\n' ' ')"
  mkdir -p "$D/replays-$PROP"; mv /verif/replays/*.json "$D/replays-$PROP/" 2>/dev/null
done
git -C /repo checkout -- . ; git -C /repo clean -fdq src tests examples 2>/dev/null
) 9>/tmp/repo.lock
