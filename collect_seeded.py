#!/usr/bin/env python3
"""Collect verified seeded changes from /tmp/seed-<ID>/m<i> into /verif/seeded/<ID>-m<i>/ (patch.diff, demonstration, meta.json)."""
import glob, json, os, re, shutil, sys
det = json.load(open('/verif/seeded/detection.json')) if os.path.exists('/verif/seeded/detection.json') else {}
for d in sorted(glob.glob('/tmp/seed-C*/m*')):
    pid = os.path.basename(os.path.dirname(d)).replace('seed-', '')
    m = os.path.basename(d)
    vf = os.path.join(d, 'verified.json')
    if not os.path.exists(vf):
        print(pid, m, 'not verified yet'); continue
    ver = json.load(open(vf))
    if not ver.get('confirmed'):
        print(pid, m, 'NOT CONFIRMED', ver); continue
    out = f'/verif/seeded/{pid}-{m}'
    os.makedirs(out, exist_ok=True)
    shutil.copy(os.path.join(d, 'patch.diff'), out)
    for f in os.listdir(d):
        if f.endswith('.rs') or f.endswith('.sh'):
            shutil.copy(os.path.join(d, f), out)
    am = json.load(open(os.path.join(d, 'meta.json')))
    key = f'{pid}-{m}'
    dj = os.path.join(d, 'detect.json')
    if os.path.exists(dj):
        det[key] = json.load(open(dj))
    meta = {
        'property': pid,
        'origin': 'written by a fresh sub-agent that was given only the property text and its own scratch worktree (nothing from /verif)',
        'summary': am.get('summary'),
        'needs_to_manifest': am.get('needs'),
        'demonstration': {'cmd_as_given_by_author': am.get('demo_cmd'), 'files': [f for f in os.listdir(out) if f.endswith('.rs') or f.endswith('.sh')]},
        'confirmed_by_builder_in_scratch_worktree': {
            'script': '/verif/verify_seed.sh', 'applies': ver['applies'], 'builds_default_features': ver['build_default'], 'builds_with_verif_hooks': ver['build_verif_hooks'],
            'existing_suite_unedited': ver['existing_suite'], 'tests_passed_incl_doctests': ver['tests_passed_incl_doctests'],
            'demo_exit_with_change': ver['demo_exit_with_change'], 'demo_exit_without_change': ver['demo_exit_without_change']},
        'checks_run_against_it': det.get(key, 'see DESIGN.md §10'),
    }
    json.dump(meta, open(os.path.join(out, 'meta.json'), 'w'), indent=1)
    print(pid, m, 'collected')
json.dump(det, open('/verif/seeded/detection.json', 'w'), indent=1)
