#!/bin/sh
# usage: run_mutant.sh <patch> <prop> [tier]  — apply a patch to /repo, run one check, undo the patch straight afterwards
P="$(readlink -f "$1")"; PROP="$2"; TIER="${3:-quick}"
cd /verif
if ! git -C /repo diff --quiet; then echo "run_mutant: /repo is dirty, refusing"; exit 2; fi
git -C /repo apply "$P" || { echo "run_mutant: patch does not apply"; exit 2; }
trap 'git -C /repo checkout -- . ; git -C /repo clean -fdq src tests examples 2>/dev/null' EXIT INT TERM
START=$(date +%s)
VERIF_EVIDENCE_DIR=/tmp/mutant-evidence ./check "$PROP" "$TIER" > /tmp/mutant.out 2>&1
RC=$?
END=$(date +%s)
grep -E "VIOLATION|class=|harness error|KNOWN|^rfsim:|^check:" /tmp/mutant.out | head -12
echo "== $(basename $P) on $PROP: exit $RC in $((END-START)) s"
exit 0
