#!/bin/bash
# usage: seed_pipeline.sh <ID> <m> [check-prop] [tier]
# verify a seeded change in its scratch worktree (verify_seed.sh), then run the property's check against it in /repo
# (apply -> check -> undo) and record the outcome in /tmp/seed-<ID>/<m>/detect.json
ID="$1"; M="$2"; PROP="${3:-$ID}"; TIER="${4:-quick}"; D=/tmp/seed-$ID/$M
cd /verif
if [ ! -f "$D/verified.json" ]; then ./verify_seed.sh "$ID" "$M" > "$D/verify.out" 2>&1; fi
OK=$(python3 -c "import json;print(json.load(open('$D/verified.json')).get('confirmed'))" 2>/dev/null)
if [ "$OK" != "True" ]; then echo "$ID $M NOT CONFIRMED"; cat "$D/verified.json"; exit 1; fi
(
flock 9
if ! git -C /repo diff --quiet; then echo "/repo dirty"; exit 2; fi
git -C /repo apply "$D/patch.diff" || exit 2
START=$(date +%s)
VERIF_EVIDENCE_DIR=/tmp/mutant-evidence ./check "$PROP" "$TIER" > "$D/check.out" 2>&1; RC=$?
END=$(date +%s)
git -C /repo checkout -- . ; git -C /repo clean -fdq src tests examples 2>/dev/null
python3 - <<P
import json,re
out=open("$D/check.out").read()
cls=sorted(set(re.findall(r"class=(\S+)",out)))
json.dump({"check":"./check $PROP $TIER","exit":$RC,"detected":$RC==1,"violation_classes":cls,"wall_s_incl_rebuild":$END-$START},open("$D/detect.json","w"),indent=1)
print("$ID $M ->", "DETECTED" if $RC==1 else ("MISSED" if $RC==0 else "HARNESS-ERROR rc=$RC"), cls)
P
rm -f /verif/replays/*.json
) 9>/tmp/repo.lock
