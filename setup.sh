#!/bin/sh
# Build every simulator flavour from files on disk only (offline).
set -e
cd "$(dirname "$(readlink -f "$0")")"
V=$(pwd)
export CARGO_NET_OFFLINE=true
./check build rel asan feat-sse feat-avx feat-none
(cd $V/witness && cargo check --offline --target-dir $V/target/witness >/dev/null 2>&1)
# Engine B (Miri) build
(cd $V/sim && RUSTFLAGS="-C target-feature=+sse4.1,+avx,+fma,+avx2" MIRIFLAGS="-Zmiri-disable-isolation" cargo +nightly miri run --offline --no-default-features --features avx,sse --target-dir $V/target/miri -- miri-case --prop C11 --from 0 --to 0 >/dev/null 2>&1)
echo setup done
