#!/bin/sh
# Build every simulator flavour from files on disk only (offline).
set -e
cd /verif
export CARGO_NET_OFFLINE=true
./check build rel asan feat-sse feat-avx feat-none
(cd /verif/witness && cargo check --offline --target-dir /verif/target/witness >/dev/null 2>&1)
# Engine B (Miri) build
(cd /verif/sim && RUSTFLAGS="-C target-feature=+sse4.1,+avx,+fma,+avx2" MIRIFLAGS="-Zmiri-disable-isolation" cargo +nightly miri run --offline --target-dir /verif/target/miri -- miri-case --prop C11 --from 0 --to 0 >/dev/null 2>&1)
echo setup done
