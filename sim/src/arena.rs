//! The simulator's buffer arena: every caller buffer handed to RustFFT lives between two PROT_NONE
//! guard pages, flush against one of them, optionally at the weakest alignment the element type
//! allows; the slack on the other side carries a canary that is checked after the call.
//! Under Miri the arena degrades to plain heap allocations (Miri itself is the memory monitor).

use crate::elem::Elem;
use num_complex::Complex;
use serde::{Deserialize, Serialize};
use std::sync::atomic::{AtomicU64, Ordering};

#[derive(Clone, Copy, Debug, PartialEq, Eq, Serialize, Deserialize)]
pub enum Place {
    /// end of the buffer coincides with the start of the trailing guard page
    Right,
    /// end of the buffer is one alignment unit before the guard page (start lands on the weakest legal alignment)
    RightMis,
    /// start of the buffer coincides with the end of the leading guard page
    Left,
    /// start one alignment unit after the leading guard page
    LeftMis,
}
pub const PLACES: [Place; 4] = [Place::Right, Place::RightMis, Place::Left, Place::LeftMis];

pub static FAULTS_INSTALLED: AtomicU64 = AtomicU64::new(0);
/// The run a worker is executing right now; reported by the fault handler.
pub static CURRENT_RUN: AtomicU64 = AtomicU64::new(u64::MAX);
pub static CURRENT_OP: AtomicU64 = AtomicU64::new(u64::MAX);

const CANARY: u8 = 0xA5;

pub struct GBuf<T: Elem> {
    ptr: *mut Complex<T>,
    len: usize,
    #[cfg(not(miri))]
    map: *mut u8,
    #[cfg(not(miri))]
    map_len: usize,
    #[cfg(not(miri))]
    data: *mut u8,
    #[cfg(not(miri))]
    data_len: usize,
    #[cfg(not(miri))]
    ro: std::cell::Cell<bool>,
    #[cfg(miri)]
    _store: Vec<T>,
}
unsafe impl<T: Elem> Send for GBuf<T> {}
unsafe impl<T: Elem> Sync for GBuf<T> {}

#[cfg(not(miri))]
fn page() -> usize {
    4096
}

impl<T: Elem> GBuf<T> {
    #[cfg(not(miri))]
    pub fn new(len: usize, place: Place) -> Self {
        let esz = std::mem::size_of::<Complex<T>>();
        let align = std::mem::align_of::<Complex<T>>();
        let bytes = len * esz;
        let shift = match place {
            Place::RightMis | Place::LeftMis => align,
            _ => 0,
        };
        let pg = page();
        // size classes (power-of-two page counts) so that mappings can be reused across calls: fresh anonymous
        // pages are expensive in this VM, and a reused mapping keeps its guard pages
        let data_len = ((bytes + shift + pg - 1) / pg).max(1).next_power_of_two() * pg;
        let map_len = data_len + 2 * pg;
        unsafe {
            let pooled = {
                let mut pool = POOL.lock().unwrap();
                match pool.iter().position(|(l, _)| *l == data_len) {
                    Some(i) => {
                        let (_, p) = pool.swap_remove(i);
                        POOL_BYTES.fetch_sub(map_len as u64, Ordering::Relaxed);
                        Some(p as *mut u8)
                    }
                    None => None,
                }
            };
            let map = match pooled {
                Some(m) => m,
                None => {
                    let map = libc::mmap(
                        std::ptr::null_mut(),
                        map_len,
                        libc::PROT_NONE,
                        libc::MAP_PRIVATE | libc::MAP_ANONYMOUS,
                        -1,
                        0,
                    );
                    if map == libc::MAP_FAILED {
                        eprintln!("rfsim: mmap of {} bytes failed", map_len);
                        std::process::exit(2);
                    }
                    let map = map as *mut u8;
                    if libc::mprotect(map.add(pg) as *mut _, data_len, libc::PROT_READ | libc::PROT_WRITE) != 0 {
                        eprintln!("rfsim: mprotect failed");
                        std::process::exit(2);
                    }
                    map
                }
            };
            let data = map.add(pg);
            std::ptr::write_bytes(data, CANARY, data_len);
            let start = match place {
                Place::Right | Place::RightMis => data.add(data_len - shift - bytes),
                Place::Left | Place::LeftMis => data.add(shift),
            };
            debug_assert!(start as usize % align == 0);
            GBuf {
                ptr: start as *mut Complex<T>,
                len,
                map,
                map_len,
                data,
                data_len,
                ro: std::cell::Cell::new(false),
            }
        }
    }
    #[cfg(miri)]
    pub fn new(len: usize, place: Place) -> Self {
        // backing store of scalars with one spare, so that the *Mis placements can start the buffer on the weakest
        // legal alignment (address = align mod 2*align) whatever address the interpreter's allocator picked
        let mut store = vec![T::of(0.0); 2 * len + 1];
        let align = std::mem::align_of::<Complex<T>>();
        let base = store.as_mut_ptr();
        let base_mis = (base as usize) % (2 * align) != 0;
        let want_mis = matches!(place, Place::RightMis | Place::LeftMis);
        let off = if base_mis == want_mis { 0 } else { 1 };
        GBuf {
            ptr: unsafe { base.add(off) } as *mut Complex<T>,
            len,
            _store: store,
        }
    }
    pub fn from_slice(xs: &[Complex<T>], place: Place) -> Self {
        let mut b = Self::new(xs.len(), place);
        b.as_mut().copy_from_slice(xs);
        b
    }
    pub fn filled(len: usize, place: Place, v: Complex<T>) -> Self {
        let mut b = Self::new(len, place);
        for e in b.as_mut() {
            *e = v;
        }
        b
    }
    pub fn len(&self) -> usize {
        self.len
    }
    pub fn as_ref(&self) -> &[Complex<T>] {
        unsafe { std::slice::from_raw_parts(self.ptr, self.len) }
    }
    #[allow(clippy::should_implement_trait)]
    pub fn as_mut(&mut self) -> &mut [Complex<T>] {
        unsafe { std::slice::from_raw_parts_mut(self.ptr, self.len) }
    }
    /// Raw access for worlds in which several simulated threads own disjoint sub-slices of one allocation.
    pub fn raw(&self) -> (*mut Complex<T>, usize) {
        (self.ptr, self.len)
    }
    /// Makes the pages holding the buffer read-only (any store, even of the same value, faults).
    pub fn protect_ro(&self) {
        #[cfg(not(miri))]
        unsafe {
            libc::mprotect(self.data as *mut _, self.data_len, libc::PROT_READ);
            self.ro.set(true);
        }
    }
    pub fn protect_rw(&self) {
        #[cfg(not(miri))]
        if !self.ro.get() {
            return;
        }
        #[cfg(not(miri))]
        unsafe {
            self.ro.set(false);
            libc::mprotect(
                self.data as *mut _,
                self.data_len,
                libc::PROT_READ | libc::PROT_WRITE,
            );
        }
    }
    /// true when the slack bytes around the buffer still hold the canary
    pub fn canary_ok(&self) -> bool {
        #[cfg(not(miri))]
        unsafe {
            let start = self.ptr as *mut u8;
            let end = start.add(self.len * std::mem::size_of::<Complex<T>>());
            let mut p = self.data;
            while p < start {
                if *p != CANARY {
                    return false;
                }
                p = p.add(1);
            }
            let mut p = end;
            let dend = self.data.add(self.data_len);
            while p < dend {
                if *p != CANARY {
                    return false;
                }
                p = p.add(1);
            }
        }
        true
    }
}

impl<T: Elem> Drop for GBuf<T> {
    fn drop(&mut self) {
        #[cfg(not(miri))]
        unsafe {
            if POOL_BYTES.load(Ordering::Relaxed) + (self.map_len as u64) < POOL_CAP {
                if self.ro.get() {
                    libc::mprotect(self.data as *mut _, self.data_len, libc::PROT_READ | libc::PROT_WRITE);
                }
                POOL.lock().unwrap().push((self.data_len, self.map as usize));
                POOL_BYTES.fetch_add(self.map_len as u64, Ordering::Relaxed);
            } else {
                libc::munmap(self.map as *mut _, self.map_len);
            }
        }
    }
}

#[cfg(not(miri))]
static POOL: std::sync::Mutex<Vec<(usize, usize)>> = std::sync::Mutex::new(Vec::new());
#[cfg(not(miri))]
static POOL_BYTES: AtomicU64 = AtomicU64::new(0);
#[cfg(not(miri))]
const POOL_CAP: u64 = 512 << 20;

#[cfg(not(miri))]
fn wr(buf: &[u8]) {
    unsafe {
        libc::write(1, buf.as_ptr() as *const _, buf.len());
    }
}
#[cfg(not(miri))]
fn wr_u64(mut v: u64, hex: bool) {
    let mut tmp = [0u8; 24];
    let mut i = tmp.len();
    let base = if hex { 16 } else { 10 };
    if v == 0 {
        i -= 1;
        tmp[i] = b'0';
    }
    while v > 0 {
        i -= 1;
        let d = (v % base) as u8;
        tmp[i] = if d < 10 { b'0' + d } else { b'a' + d - 10 };
        v /= base;
    }
    wr(&tmp[i..]);
}

#[cfg(not(miri))]
extern "C" fn on_fault(sig: libc::c_int, info: *mut libc::siginfo_t, _ctx: *mut libc::c_void) {
    // async-signal-safe only: raw writes and _exit
    wr(b"\nFAULT sig=");
    wr_u64(sig as u64, false);
    wr(b" run=");
    wr_u64(CURRENT_RUN.load(Ordering::Relaxed), false);
    wr(b" op=");
    wr_u64(CURRENT_OP.load(Ordering::Relaxed), false);
    wr(b" addr=0x");
    let addr = unsafe { (*info).si_addr() } as u64;
    wr_u64(addr, true);
    wr(b"\n");
    unsafe { libc::_exit(86) }
}

/// Installs the SIGSEGV/SIGBUS/SIGILL handler that attributes a hardware fault to the current run.
pub fn install_fault_handler() {
    #[cfg(not(miri))]
    unsafe {
        if FAULTS_INSTALLED.swap(1, Ordering::SeqCst) == 1 {
            return;
        }
        // alternate stack, in case the fault is a stack overflow
        let ss_size = 1 << 16;
        let stack = libc::mmap(
            std::ptr::null_mut(),
            ss_size,
            libc::PROT_READ | libc::PROT_WRITE,
            libc::MAP_PRIVATE | libc::MAP_ANONYMOUS,
            -1,
            0,
        );
        let ss = libc::stack_t {
            ss_sp: stack,
            ss_flags: 0,
            ss_size,
        };
        libc::sigaltstack(&ss, std::ptr::null_mut());
        let mut sa: libc::sigaction = std::mem::zeroed();
        sa.sa_sigaction = on_fault as usize;
        sa.sa_flags = libc::SA_SIGINFO | libc::SA_ONSTACK;
        libc::sigemptyset(&mut sa.sa_mask);
        for s in [libc::SIGSEGV, libc::SIGBUS, libc::SIGILL, libc::SIGFPE] {
            libc::sigaction(s, &sa, std::ptr::null_mut());
        }
    }
}
