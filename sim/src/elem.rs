//! Element types the simulator drives RustFFT with: f32, f64 and `Fx`, a non-f32/f64 element type whose
//! k-th arithmetic operation can be made to panic (the simulator's "crash at an arbitrary point").

use num_complex::Complex;
use num_traits::{FromPrimitive, Num, One, Signed, ToPrimitive, Zero};
use std::cell::Cell;
use std::ops::{Add, Div, Mul, Neg, Rem, Sub};

pub trait Elem: rustfft::FftNum + PartialEq + PartialOrd {
    const NAME: &'static str;
    const EPS: f64;
    /// true for the types the SIMD planners accept
    const SIMD: bool;
    const BYTES: usize;
    fn of(x: f64) -> Self;
    fn val(self) -> f64;
    fn bits(self) -> u64;
}

impl Elem for f32 {
    const NAME: &'static str = "f32";
    const EPS: f64 = f32::EPSILON as f64;
    const SIMD: bool = true;
    const BYTES: usize = 4;
    fn of(x: f64) -> Self {
        x as f32
    }
    fn val(self) -> f64 {
        self as f64
    }
    fn bits(self) -> u64 {
        self.to_bits() as u64
    }
}
impl Elem for f64 {
    const NAME: &'static str = "f64";
    const EPS: f64 = f64::EPSILON;
    const SIMD: bool = true;
    const BYTES: usize = 8;
    fn of(x: f64) -> Self {
        x
    }
    fn val(self) -> f64 {
        self
    }
    fn bits(self) -> u64 {
        self.to_bits()
    }
}

thread_local! {
    static FX_BUDGET: Cell<u64> = const { Cell::new(u64::MAX) };
    static FX_OPS: Cell<u64> = const { Cell::new(0) };
}

/// (budget, ops) of the calling OS thread: swapped by the coroutine scheduler at context switches
pub fn fx_tls_get() -> (u64, u64) {
    (FX_BUDGET.with(|b| b.get()), FX_OPS.with(|c| c.get()))
}
pub fn fx_tls_set(v: (u64, u64)) {
    FX_BUDGET.with(|b| b.set(v.0));
    FX_OPS.with(|c| c.set(v.1));
}

pub const FX_CRASH_MSG: &str = "rfsim: injected arithmetic crash";

/// Arms the crash: the (k+1)-th arithmetic operation performed by this thread from now on panics.
pub fn fx_arm(k: u64) {
    FX_BUDGET.with(|b| b.set(k));
}
pub fn fx_disarm() {
    FX_BUDGET.with(|b| b.set(u64::MAX));
}
pub fn fx_ops() -> u64 {
    FX_OPS.with(|c| c.get())
}
pub fn fx_reset_ops() {
    FX_OPS.with(|c| c.set(0));
}

#[inline]
fn tick() {
    FX_OPS.with(|c| c.set(c.get() + 1));
    FX_BUDGET.with(|b| {
        let v = b.get();
        if v != u64::MAX {
            if v == 0 {
                b.set(u64::MAX);
                panic!("{}", FX_CRASH_MSG);
            }
            b.set(v - 1);
        }
    });
}

#[derive(Clone, Copy, Debug, PartialEq, PartialOrd, Default)]
pub struct Fx(pub f64);

macro_rules! binop {
    ($tr:ident, $f:ident, $op:tt) => {
        impl $tr for Fx {
            type Output = Fx;
            #[inline]
            fn $f(self, o: Fx) -> Fx {
                tick();
                Fx(self.0 $op o.0)
            }
        }
    };
}
binop!(Add, add, +);
binop!(Sub, sub, -);
binop!(Mul, mul, *);
binop!(Div, div, /);
binop!(Rem, rem, %);
impl Neg for Fx {
    type Output = Fx;
    #[inline]
    fn neg(self) -> Fx {
        Fx(-self.0)
    }
}
impl Zero for Fx {
    fn zero() -> Self {
        Fx(0.0)
    }
    fn is_zero(&self) -> bool {
        self.0 == 0.0
    }
}
impl One for Fx {
    fn one() -> Self {
        Fx(1.0)
    }
}
impl Num for Fx {
    type FromStrRadixErr = ();
    fn from_str_radix(_s: &str, _r: u32) -> Result<Self, ()> {
        Err(())
    }
}
impl Signed for Fx {
    fn abs(&self) -> Self {
        Fx(self.0.abs())
    }
    fn abs_sub(&self, o: &Self) -> Self {
        Fx((self.0 - o.0).max(0.0))
    }
    fn signum(&self) -> Self {
        Fx(self.0.signum())
    }
    fn is_positive(&self) -> bool {
        self.0 > 0.0
    }
    fn is_negative(&self) -> bool {
        self.0 < 0.0
    }
}
impl ToPrimitive for Fx {
    fn to_i64(&self) -> Option<i64> {
        Some(self.0 as i64)
    }
    fn to_u64(&self) -> Option<u64> {
        Some(self.0 as u64)
    }
    fn to_f64(&self) -> Option<f64> {
        Some(self.0)
    }
}
impl FromPrimitive for Fx {
    fn from_i64(n: i64) -> Option<Self> {
        Some(Fx(n as f64))
    }
    fn from_u64(n: u64) -> Option<Self> {
        Some(Fx(n as f64))
    }
    fn from_f64(n: f64) -> Option<Self> {
        Some(Fx(n))
    }
    fn from_f32(n: f32) -> Option<Self> {
        Some(Fx(n as f64))
    }
}
impl Elem for Fx {
    const NAME: &'static str = "fx";
    const EPS: f64 = f64::EPSILON;
    const SIMD: bool = false;
    const BYTES: usize = 8;
    fn of(x: f64) -> Self {
        Fx(x)
    }
    fn val(self) -> f64 {
        self.0
    }
    fn bits(self) -> u64 {
        self.0.to_bits()
    }
}

pub fn cbits<T: Elem>(c: &Complex<T>) -> (u64, u64) {
    (c.re.bits(), c.im.bits())
}

pub fn hash_slice<T: Elem>(xs: &[Complex<T>]) -> u64 {
    let mut h = crate::prng::Hasher64::default();
    h.add(xs.len() as u64);
    for c in xs {
        h.add(c.re.bits());
        h.add(c.im.bits());
    }
    h.get()
}

/// Bit equality of two slices (NaN == NaN when the payloads agree)
pub fn bits_eq<T: Elem>(a: &[Complex<T>], b: &[Complex<T>]) -> bool {
    a.len() == b.len() && a.iter().zip(b).all(|(x, y)| cbits(x) == cbits(y))
}

pub fn first_diff<T: Elem>(a: &[Complex<T>], b: &[Complex<T>]) -> Option<usize> {
    if a.len() != b.len() {
        return Some(a.len().min(b.len()));
    }
    a.iter().zip(b).position(|(x, y)| cbits(x) != cbits(y))
}
