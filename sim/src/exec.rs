//! Executes a `Case`: builds the world, runs the per-thread programs under the baton scheduler
//! (Engine A) or as free-running threads (Engine B, under Miri), evaluates the oracles.

use crate::arena::{GBuf, Place, CURRENT_OP};
use crate::elem::{self, bits_eq, first_diff, Elem, Fx};
use crate::oracle::{self, bound, C64};
use crate::prng::{Hasher64, Rng};
use crate::program::*;
use crate::sched::{self, Policy, Sched, SchedReport, SimAbort, SimMutex, StepBudget};
use crate::world::{self, AnyPlanner, Dir, PK};
use num_complex::Complex;
use rustfft::Fft;
use serde::{Deserialize, Serialize};
use std::any::Any;
use std::collections::BTreeMap;
use std::panic::{catch_unwind, AssertUnwindSafe};
use std::sync::atomic::Ordering;
use std::sync::{Arc, Mutex};

#[derive(Clone, Debug, Serialize, Deserialize, PartialEq)]
pub struct Violation {
    pub class: String,
    pub detail: String,
    pub thread: i32,
    pub op: i32,
}

#[derive(Clone, Debug, Default, Serialize, Deserialize)]
pub struct RunOut {
    pub violations: Vec<Violation>,
    pub counters: BTreeMap<String, u64>,
    pub sched: SchedReport,
    /// hash of everything observable in the run: op results in schedule order, output fingerprints
    pub log_hash: u64,
    /// max over dft-reference comparisons of error / bound
    pub worst_ratio: f64,
    pub calls: u64,
}

pub fn panic_msg(p: &Box<dyn Any + Send>) -> String {
    if let Some(s) = p.downcast_ref::<&str>() {
        s.to_string()
    } else if let Some(s) = p.downcast_ref::<String>() {
        s.clone()
    } else if p.downcast_ref::<StepBudget>().is_some() {
        "rfsim: call exceeded its scheduling-step allowance (does not terminate?)".into()
    } else {
        "<non-string panic payload>".into()
    }
}

/// Generous bound on the scheduling points one call over `elems` elements may pass (each point precedes the
/// processing of at least one chunk at some nesting level): used where no measured reference count exists.
pub fn step_allowance(elems: usize) -> u64 {
    let n = elems as u64 + 64;
    10_000 + 64 * n * (64 - n.leading_zeros() as u64)
}

thread_local! {
    static LAST_REF_STEPS: std::cell::Cell<u64> = const { std::cell::Cell::new(0) };
}

pub fn last_ref_get() -> u64 {
    LAST_REF_STEPS.with(|c| c.get())
}
pub fn last_ref_set(v: u64) {
    LAST_REF_STEPS.with(|c| c.set(v));
}

pub type Inst<T> = Arc<dyn Fft<T>>;

/// The bound checks RustFFT keeps only in debug builds (`debug_assert!(<expr>)` guarding an unchecked access), read
/// from /repo's sources. In the sanitizer flavour (debug assertions on) a panic "assertion failed: <expr>" with one of
/// these expressions means: the shipped build performs that access out of range.
pub fn debug_assert_exprs() -> &'static Vec<String> {
    static EXPRS: std::sync::OnceLock<Vec<String>> = std::sync::OnceLock::new();
    EXPRS.get_or_init(|| {
        let mut out = Vec::new();
        if !cfg!(debug_assertions) {
            return out;
        }
        fn walk(dir: &std::path::Path, out: &mut Vec<String>) {
            let Ok(rd) = std::fs::read_dir(dir) else { return };
            for e in rd.flatten() {
                let p = e.path();
                if p.is_dir() {
                    walk(&p, out);
                } else if p.extension().map(|x| x == "rs").unwrap_or(false) {
                    if let Ok(t) = std::fs::read_to_string(&p) {
                        for l in t.lines() {
                            let l = l.trim();
                            if let Some(r) = l.strip_prefix("debug_assert!(") {
                                if let Some(e) = r.strip_suffix(");") {
                                    if !out.iter().any(|x| x == e) {
                                        out.push(e.to_string());
                                    }
                                }
                            }
                        }
                    }
                }
            }
        }
        walk(std::path::Path::new("/repo/src"), &mut out);
        out
    })
}

pub fn is_debug_bound_panic(msg: &str) -> bool {
    if msg.contains("unsafe precondition(s) violated") {
        return true;
    }
    match msg.strip_prefix("assertion failed: ") {
        Some(e) => debug_assert_exprs().iter().any(|x| x == e),
        None => false,
    }
}

struct SharedBuf<T: Elem> {
    def: SharedBufDef,
    n: usize,
    initial: Vec<Complex<T>>,
    data: GBuf<T>,
    out: GBuf<T>,
    batch_out: Option<Vec<Complex<T>>>,
    touched: Mutex<Vec<bool>>,
}

#[derive(Clone)]
enum Hist {
    Plan { planner: u16, len: usize, dir: Dir, via: bool },
    Drop { planner: u16 },
}

struct World<T: Elem> {
    case: Case,
    prefix: String,
    insts: Vec<Option<Inst<T>>>,
    /// twin instances built from the same specifications, only ever used by isolated reference calls
    refs: Vec<Option<Inst<T>>>,
    planners: Vec<SimMutex<Option<AnyPlanner<T>>>>,
    planner_ok: Vec<bool>,
    history: Mutex<Vec<(Hist, Option<Inst<T>>)>>,
    shared: Vec<Option<SharedBuf<T>>>,
    viol: Mutex<Vec<Violation>>,
    counters: Mutex<BTreeMap<String, u64>>,
    worst_ratio: Mutex<f64>,
    sched: Option<Arc<Sched>>,
}

struct TCtx<T: Elem> {
    tid: usize,
    op: usize,
    slots: Vec<Option<Inst<T>>>,
    leftover_scratch: Vec<Complex<T>>,
    leftover_out: Vec<Complex<T>>,
    log: Hasher64,
}

fn c<T: Elem>(re: f64, im: f64) -> Complex<T> {
    Complex::new(T::of(re), T::of(im))
}

pub fn gen_input<T: Elem>(spec: &InputSpec, total: usize) -> Vec<Complex<T>> {
    let mut rng = Rng::new(spec.seed ^ 0x1234_5678_9abc_def0);
    match spec.kind {
        InputKind::Dense => (0..total).map(|_| c(rng.unit() * 2.0 - 1.0, rng.unit() * 2.0 - 1.0)).collect(),
        InputKind::Const => {
            let v = c(rng.unit() + 0.5, rng.unit() - 0.5);
            vec![v; total]
        }
        InputKind::Impulse(j) => {
            let mut v = vec![c(0.0, 0.0); total];
            if total > 0 {
                v[j as usize % total] = c(1.0, 0.0);
            }
            v
        }
        InputKind::Sparse(s) => {
            let mut v = vec![c(0.0, 0.0); total];
            if total > 0 {
                for _ in 0..s {
                    let j = rng.below(total as u64) as usize;
                    v[j] = c(rng.unit() * 2.0 - 1.0, rng.unit() * 2.0 - 1.0);
                }
            }
            v
        }
    }
}

pub fn fill_value<T: Elem>(f: Fill) -> Complex<T> {
    match f {
        Fill::Zero | Fill::Leftover => c(0.0, 0.0),
        Fill::NaN => c(f64::NAN, f64::NAN),
        Fill::PosInf => c(f64::INFINITY, f64::INFINITY),
        Fill::NegInf => c(f64::NEG_INFINITY, f64::NEG_INFINITY),
        Fill::Huge => {
            if T::BYTES == 4 {
                c(3.0e38, -3.0e38)
            } else {
                c(1.0e308, -1.0e308)
            }
        }
    }
}

fn fill_buf<T: Elem>(buf: &mut [Complex<T>], f: Fill, leftover: &[Complex<T>]) {
    if f == Fill::Leftover && !leftover.is_empty() {
        for (i, e) in buf.iter_mut().enumerate() {
            *e = leftover[i % leftover.len()];
        }
    } else {
        let v = fill_value::<T>(f);
        for e in buf.iter_mut() {
            *e = v;
        }
    }
}

pub fn advertised<T: Elem>(fft: &Inst<T>, entry: Entry) -> usize {
    match entry {
        Entry::Process | Entry::InPlace => fft.get_inplace_scratch_len(),
        Entry::OutOfPlace => fft.get_outofplace_scratch_len(),
        Entry::Immut => fft.get_immutable_scratch_len(),
    }
}

/// The isolated reference call: same instance, entry point and input bits, executed alone with fresh
/// zeroed exact-length scratch on ordinary heap buffers. Err(msg) when it panics.
pub fn isolated_call<T: Elem>(fft: &Inst<T>, entry: Entry, input: &[Complex<T>]) -> Result<Vec<Complex<T>>, String> {
    sched::suspended(|| {
        let c0 = sched::hook_count();
        sched::set_step_allowance(Some(step_allowance(2 * input.len() + advertised(fft, entry))));
        let r = catch_unwind(AssertUnwindSafe(|| {
            let zero = c::<T>(0.0, 0.0);
            match entry {
                Entry::Process => {
                    let mut b = input.to_vec();
                    fft.process(&mut b);
                    b
                }
                Entry::InPlace => {
                    let mut b = input.to_vec();
                    let mut s = vec![zero; fft.get_inplace_scratch_len()];
                    fft.process_with_scratch(&mut b, &mut s);
                    b
                }
                Entry::OutOfPlace => {
                    let mut b = input.to_vec();
                    let mut o = vec![zero; input.len()];
                    let mut s = vec![zero; fft.get_outofplace_scratch_len()];
                    fft.process_outofplace_with_scratch(&mut b, &mut o, &mut s);
                    o
                }
                Entry::Immut => {
                    let mut o = vec![zero; input.len()];
                    let mut s = vec![zero; fft.get_immutable_scratch_len()];
                    fft.process_immutable_with_scratch(input, &mut o, &mut s);
                    o
                }
            }
        }));
        sched::set_step_allowance(None);
        LAST_REF_STEPS.with(|l| l.set(sched::hook_count() - c0));
        r.map_err(|p| {
            if p.downcast_ref::<SimAbort>().is_some() {
                std::panic::resume_unwind(p)
            }
            panic_msg(&p)
        })
    })
}

/// Parameters of a real (simulated-world) call
/// One guard-paged call on a freshly planned transform of element type `U`, judged against the isolated call on a twin.
/// Err((kind, detail)): kind in {"skip", "canary", "panic", "bits"}.
#[allow(clippy::too_many_arguments)]
fn foreign_call<U: Elem>(pk: PK, len: usize, dir: Dir, entry: Entry, k: u8, seed: u64, place: Place) -> Result<u64, (&'static str, String)> {
    let spec = crate::world::Spec::Planned(pk, len);
    let built = catch_unwind(|| (world::build::<U>(&spec, dir), world::build::<U>(&spec, dir)));
    let (fft, twin) = match built {
        Ok((Ok(a), Ok(b))) => (a, b),
        Ok(_) => return Err(("skip", "planner unavailable".into())),
        Err(p) => return Err(("panic", format!("planning panicked: {}", panic_msg(&p)))),
    };
    let total = len * k as usize;
    let x = gen_input::<U>(&InputSpec { seed, kind: InputKind::Dense }, total);
    let reference = isolated_call(&twin, entry, &x);
    let adv = advertised(&fft, entry);
    let mut inbuf = GBuf::from_slice(&x, place);
    let mut outbuf = GBuf::<U>::new(if matches!(entry, Entry::OutOfPlace | Entry::Immut) { total } else { 0 }, other_place(place));
    let mut scratch = GBuf::<U>::new(if entry == Entry::Process { 0 } else { adv }, place);
    sched::set_step_allowance(Some(step_allowance(3 * total + 2 * adv)));
    let r = catch_unwind(AssertUnwindSafe(|| match entry {
        Entry::Process => fft.process(inbuf.as_mut()),
        Entry::InPlace => fft.process_with_scratch(inbuf.as_mut(), scratch.as_mut()),
        Entry::OutOfPlace => fft.process_outofplace_with_scratch(inbuf.as_mut(), outbuf.as_mut(), scratch.as_mut()),
        Entry::Immut => fft.process_immutable_with_scratch(inbuf.as_ref(), outbuf.as_mut(), scratch.as_mut()),
    }));
    sched::set_step_allowance(None);
    if !(inbuf.canary_ok() && outbuf.canary_ok() && scratch.canary_ok()) {
        return Err(("canary", "bytes next to a caller buffer were overwritten".into()));
    }
    let out = match r {
        Ok(()) => match entry {
            Entry::Process | Entry::InPlace => inbuf.as_ref().to_vec(),
            _ => outbuf.as_ref().to_vec(),
        },
        Err(pl) => {
            if pl.downcast_ref::<SimAbort>().is_some() {
                std::panic::resume_unwind(pl);
            }
            return match reference {
                Ok(_) if len > 0 && total > 0 => Err(("panic", format!("well-shaped call panicked: {}", panic_msg(&pl)))),
                _ => Ok(0xdead),
            };
        }
    };
    match reference {
        Ok(r) if bits_eq(&out, &r) => Ok(elem::hash_slice(&out)),
        Ok(r) => Err(("bits", format!("output differs from the isolated call at element {:?}", first_diff(&out, &r)))),
        Err(m) => Err(("panic", format!("the isolated reference call panicked ({}) but the call returned", m))),
    }
}

struct CallParams<'a, T: Elem> {
    entry: Entry,
    input: &'a [Complex<T>],
    out_len: usize,
    scratch_len: usize,
    scratch_fill: Fill,
    out_fill: Fill,
    place: Place,
    ro_input: bool,
}

struct CallRes<T: Elem> {
    /// Ok(output) or Err(panic message)
    out: Result<Vec<Complex<T>>, String>,
    /// for Immut: did the input keep its bits
    input_intact: bool,
    canary_ok: bool,
}

fn other_place(p: Place) -> Place {
    match p {
        Place::Right => Place::Left,
        Place::RightMis => Place::LeftMis,
        Place::Left => Place::Right,
        Place::LeftMis => Place::RightMis,
    }
}

impl<T: Elem> World<T> {
    fn count(&self, key: &str, n: u64) {
        *self.counters.lock().unwrap().entry(key.to_string()).or_insert(0) += n;
    }
    /// Records a violation if its class belongs to the property under check (or is a liveness/harness class);
    /// anything else is only counted as incidental.
    fn report(&self, t: &TCtx<T>, class: &str, detail: String) {
        self.report_at(t.tid as i32, t.op as i32, class, detail)
    }
    fn report_at(&self, tid: i32, op: i32, class: &str, detail: String) {
        let own = crate::props::owns(&self.prefix, class) || class.starts_with("liveness") || class.starts_with("harness");
        if own {
            let mut v = self.viol.lock().unwrap();
            if v.len() < 16 {
                v.push(Violation { class: class.to_string(), detail, thread: tid, op });
            }
        } else {
            self.count(&format!("incidental.{}", class), 1);
        }
    }
    /// read-only mapping of immutable inputs: part of the C15 and C03 oracles (an mprotect pair per call elsewhere buys nothing)
    fn ro_props(&self) -> bool {
        matches!(self.case.prop.as_str(), "C15" | "C03" | "C13" | "C12")
    }
    fn is(&self, p: &str) -> bool {
        self.case.prop == p
    }

    fn resolve(&self, t: &TCtx<T>, r: InstRef) -> Option<Inst<T>> {
        match r {
            InstRef::Shared(i) => self.insts.get(i as usize).and_then(|x| x.clone()),
            InstRef::Local(i) => t.slots.get(i as usize).and_then(|x| x.clone()),
        }
    }

    /// The instance isolated reference calls go to: a twin built from the same specification for shared instances
    /// (so that the reference never shares state or call history with the instance under test).
    fn reference(&self, t: &TCtx<T>, r: InstRef) -> Option<Inst<T>> {
        match r {
            InstRef::Shared(i) => self.refs.get(i as usize).and_then(|x| x.clone()).or_else(|| self.resolve(t, r)),
            InstRef::Local(_) => self.resolve(t, r),
        }
    }

    /// instance obtained from a constructor that accepted a violated precondition (only memory oracles apply to it)
    fn is_ill(&self, r: InstRef) -> bool {
        match r {
            InstRef::Shared(i) => self.case.insts.get(i as usize).map(|d| d.spec.is_ill()).unwrap_or(false),
            InstRef::Local(_) => false,
        }
    }

    fn set_inside(&self, t: &TCtx<T>, inst: Option<u32>) {
        if let Some(s) = &self.sched {
            s.set_inside(t.tid, inst);
        }
    }

    /// One real call through the arena, under catch_unwind.
    fn real_call(&self, t: &mut TCtx<T>, fft: &Inst<T>, p: CallParams<T>, inst_id: u32) -> CallRes<T> {
        let mut inbuf = GBuf::from_slice(p.input, p.place);
        let mut outbuf = GBuf::<T>::new(if p.entry == Entry::OutOfPlace || p.entry == Entry::Immut { p.out_len } else { 0 }, other_place(p.place));
        fill_buf(outbuf.as_mut(), p.out_fill, &t.leftover_out);
        let mut scratch = GBuf::<T>::new(if p.entry == Entry::Process { 0 } else { p.scratch_len }, p.place);
        fill_buf(scratch.as_mut(), p.scratch_fill, &t.leftover_scratch);
        if p.ro_input {
            inbuf.protect_ro();
        }
        self.set_inside(t, Some(inst_id));
        sched::set_step_allowance(Some(step_allowance(2 * p.input.len() + p.out_len + p.scratch_len + advertised(fft, p.entry))));
        let r = catch_unwind(AssertUnwindSafe(|| match p.entry {
            Entry::Process => fft.process(inbuf.as_mut()),
            Entry::InPlace => fft.process_with_scratch(inbuf.as_mut(), scratch.as_mut()),
            Entry::OutOfPlace => fft.process_outofplace_with_scratch(inbuf.as_mut(), outbuf.as_mut(), scratch.as_mut()),
            Entry::Immut => fft.process_immutable_with_scratch(inbuf.as_ref(), outbuf.as_mut(), scratch.as_mut()),
        }));
        sched::set_step_allowance(None);
        self.set_inside(t, None);
        if p.ro_input {
            inbuf.protect_rw();
        }
        let canary_ok = inbuf.canary_ok() && outbuf.canary_ok() && scratch.canary_ok();
        let input_intact = p.entry != Entry::Immut || bits_eq(inbuf.as_ref(), p.input);
        // what this call leaves behind is the next call's "leftover" workspace
        if scratch.len() > 0 {
            t.leftover_scratch = scratch.as_ref().to_vec();
        }
        let out = match r {
            Ok(()) => Ok(match p.entry {
                Entry::Process | Entry::InPlace => inbuf.as_ref().to_vec(),
                _ => outbuf.as_ref().to_vec(),
            }),
            Err(pl) => {
                if pl.downcast_ref::<SimAbort>().is_some() {
                    std::panic::resume_unwind(pl);
                }
                let m = panic_msg(&pl);
                if is_debug_bound_panic(&m) {
                    self.report(t, "c03.debug-bound-check", format!("a debug-only bound check guarding an unchecked access fired ({:?} n={} data={} out={} scratch={}): \"{}\" - the shipped build performs this access out of range", p.entry, fft.len(), p.input.len(), p.out_len, p.scratch_len, m));
                }
                Err(m)
            }
        };
        if let Ok(o) = &out {
            if !o.is_empty() {
                t.leftover_out = o.clone();
            }
        }
        CallRes { out, input_intact, canary_ok }
    }

    fn check_memory(&self, t: &TCtx<T>, res: &CallRes<T>, what: &str) {
        if !res.canary_ok {
            self.report(t, "c03.canary-overwritten", format!("bytes next to a caller buffer were overwritten: {}", what));
        }
        if !res.input_intact {
            self.report(t, "c15.input-modified", format!("immutable input changed: {}", what));
        }
    }

    /// DFT reference sub-oracle: relative L2 error per chunk within the bound the properties state.
    /// Rounding allowance of the DFT-reference sub-oracle. Planned transforms: the bound C02 states. Constructor nests
    /// (C12 names C01 "up to rounding" but no bound): every node of the nest gets its own C02-style budget, times four
    /// (Bluestein and Rader run their inner transform twice) - still orders of magnitude below any structural error.
    fn dft_allowance(&self, inst: InstRef, n: usize) -> f64 {
        if let (true, InstRef::Shared(i)) = (self.is("C12"), inst) {
            if let Some(d) = self.case.insts.get(i as usize) {
                fn nodes(s: &crate::world::Spec, acc: &mut Vec<usize>) {
                    use crate::world::Spec::*;
                    acc.push(s.len());
                    match s {
                        Radix4Base(_, b) | Radix3Base(_, b) | Raders(b) | Bluestein(_, b) => nodes(b, acc),
                        MixedRadix(a, b) | MixedRadixSmall(a, b) | GoodThomas(a, b) | GoodThomasSmall(a, b) => {
                            nodes(a, acc);
                            nodes(b, acc);
                        }
                        _ => {}
                    }
                }
                let mut v = Vec::new();
                nodes(&d.spec, &mut v);
                return 4.0 * v.iter().map(|l| bound::<T>((*l).max(1))).sum::<f64>();
            }
        }
        bound::<T>(n)
    }

    #[allow(clippy::too_many_arguments)]
    fn check_dft(&self, t: &TCtx<T>, inst: InstRef, n: usize, inverse: bool, input: &[Complex<T>], ispec: &InputSpec, out: &[Complex<T>], what: &str) {
        if n == 0 {
            return;
        }
        let b = self.dft_allowance(inst, n);
        let class = format!("{}.dft-mismatch", self.prefix);
        for (ci, (xin, xout)) in input.chunks(n).zip(out.chunks(n)).enumerate() {
            let nz: Vec<(usize, C64)> = xin
                .iter()
                .enumerate()
                .filter(|(_, v)| v.re.val() != 0.0 || v.im.val() != 0.0)
                .map(|(j, v)| (j, (v.re.val(), v.im.val())))
                .collect();
            let xnorm = oracle::l2(xin);
            if xnorm == 0.0 {
                if oracle::l2(xout) != 0.0 {
                    self.report(t, &class, format!("{} chunk {}: zero input, non-zero output", what, ci));
                }
                continue;
            }
            let (err, denom, mode);
            if nz.len() <= 8 && n <= 1 << 16 {
                let r = oracle::ref_sparse(n, inverse, &nz);
                err = oracle::l2_dist(xout, &r);
                denom = oracle::l2_ref(&r);
                mode = "sparse";
            } else if n <= 192 {
                let r = oracle::ref_dense(n, inverse, &oracle::to_c64(xin));
                err = oracle::l2_dist(xout, &r);
                denom = oracle::l2_ref(&r);
                mode = "dense";
            } else {
                // spot bins: sum over a subset of |err|^2 <= ||err||^2 <= (B * sqrt(n) * ||x||)^2  (Parseval)
                let x64 = oracle::to_c64(xin);
                let tw = oracle::twiddle_table(n, inverse);
                let mut rng = Rng::new(ispec.seed ^ 0x5b07 ^ ci as u64);
                let m = if n <= 4096 { 8 } else { 4 };
                let mut e2 = 0.0;
                for _ in 0..m {
                    let k = rng.below(n as u64) as usize;
                    let (rr, ri) = oracle::ref_bin(&tw, &x64, k);
                    let (dr, di) = (xout[k].re.val() - rr, xout[k].im.val() - ri);
                    e2 += dr * dr + di * di;
                }
                err = e2.sqrt();
                denom = (n as f64).sqrt() * xnorm;
                mode = "spot";
            }
            let ratio = if err == 0.0 { 0.0 } else { err / (b * denom) };
            {
                let mut w = self.worst_ratio.lock().unwrap();
                if ratio > *w || ratio.is_nan() {
                    *w = if ratio.is_nan() { f64::INFINITY } else { ratio };
                }
            }
            self.count("oracle.dft-ref", 1);
            if !(ratio <= 1.0) {
                self.report(
                    t,
                    &class,
                    format!("{} chunk {} ({} reference): relative L2 error {:.3e} exceeds bound {:.3e}", what, ci, mode, err / denom, b),
                );
                return;
            }
        }
    }

    fn exec_call(&self, t: &mut TCtx<T>, op: &Op) {
        let Op::Call { inst, entry, k, input, scratch_extra, scratch_fill, out_fill, place, dft_ref } = op else { unreachable!() };
        self.do_call(t, inst, entry, *k as usize, input, scratch_extra, scratch_fill, out_fill, place, dft_ref)
    }

    /// `BigBatch`: one well-shaped call over so many chunks that the buffers reach `target_elems` elements (bulk paths
    /// keyed on the total size of a call rather than on the transform length), judged like any other call.
    fn exec_bigbatch(&self, t: &mut TCtx<T>, op: &Op) {
        let Op::BigBatch { inst, entry, target_elems, seed, place } = op else { unreachable!() };
        let Some(fft) = self.resolve(t, *inst) else {
            self.count("skipped.no-instance", 1);
            return;
        };
        let n = fft.len().max(1);
        let k = ((*target_elems as usize) / n).clamp(1, 1 << 18);
        self.count("op.big-batch", 1);
        self.do_call(t, inst, entry, k, &InputSpec { seed: *seed, kind: InputKind::Dense }, &0, &Fill::Zero, &Fill::NaN, place, &false)
    }

    #[allow(clippy::too_many_arguments)]
    fn do_call(&self, t: &mut TCtx<T>, inst: &InstRef, entry: &Entry, k: usize, input: &InputSpec, scratch_extra: &u32, scratch_fill: &Fill, out_fill: &Fill, place: &Place, dft_ref: &bool) {
        let k = &k;
        let Some(fft) = self.resolve(t, *inst) else {
            self.count("skipped.no-instance", 1);
            return;
        };
        let n = fft.len();
        let total = n * (*k as usize);
        let x = gen_input::<T>(input, total);
        let what = format!("{:?} n={} k={} {:?}", entry, n, k, inst);
        let rf = self.reference(t, *inst).unwrap_or_else(|| Arc::clone(&fft));
        let reference = isolated_call(&rf, *entry, &x);
        let adv = advertised(&fft, *entry);
        let inst_id = match inst {
            InstRef::Shared(i) => *i as u32,
            InstRef::Local(i) => 1000 + t.tid as u32 * 100 + *i as u32,
        };
        let ro = *entry == Entry::Immut && cfg!(not(miri)) && self.ro_props();
        let res = self.real_call(
            t,
            &fft,
            CallParams { entry: *entry, input: &x, out_len: total, scratch_len: adv + *scratch_extra as usize, scratch_fill: *scratch_fill, out_fill: *out_fill, place: *place, ro_input: ro },
            inst_id,
        );
        self.count("op.call", 1);
        if *scratch_fill != Fill::Zero {
            self.count("fault.scratch.fill", 1);
        }
        if *out_fill != Fill::Zero && matches!(entry, Entry::OutOfPlace | Entry::Immut) {
            self.count("fault.out.fill", 1);
        }
        if *scratch_extra > 0 {
            self.count("fault.scratch.len", 1);
        }
        self.check_memory(t, &res, &what);
        if self.is_ill(*inst) {
            self.count("op.call.on-ill-constructed", 1);
            t.log.add(res.out.is_ok() as u64);
            return;
        }
        let well = n > 0 && total > 0;
        match (&res.out, &reference) {
            (Ok(o), Ok(r)) => {
                t.log.add(elem::hash_slice(o));
                if !bits_eq(o, r) {
                    let i = first_diff(o, r).unwrap_or(0);
                    for cls in ["c11.bits-differ", "c08.bits-differ", "c10.bits-differ"] {
                        if crate::props::owns(&self.prefix, cls) {
                            self.report(t, cls, format!("{}: output differs from the isolated call at element {} ({:?} vs {:?})", what, i, o.get(i), r.get(i)));
                        }
                    }
                }
                if *dft_ref {
                    self.check_dft(t, *inst, n, fft.fft_direction() == rustfft::FftDirection::Inverse, &x, input, o, &what);
                }
            }
            (Err(m), Ok(_)) => {
                t.log.add(0xdead);
                if well || total == 0 {
                    let class = format!("{}.call-panicked", self.prefix);
                    self.report(t, &class, format!("{}: well-shaped call panicked ({}) although the isolated call returns", what, m));
                }
            }
            (Ok(_), Err(m)) => {
                let class = format!("{}.isolated-panicked", self.prefix);
                self.report(t, &class, format!("{}: isolated reference call panicked ({}) but the simulated call returned", what, m));
            }
            (Err(_), Err(m)) => {
                t.log.add(0xdeaf);
                if well {
                    // a well-shaped call that panics even in isolation: C09's business (and C03's "never UB" is intact)
                    self.report(t, "c09.good-panicked", format!("{}: well-shaped call panics: {}", what, m));
                    if self.is("C13") || self.is("C10") || self.is("C12") {
                        let class = format!("{}.call-panicked", self.prefix);
                        self.report(t, &class, format!("{}: well-shaped call panics: {}", what, m));
                    }
                }
            }
        }
    }

    /// shape of a bad call -> (in_len, out_len, scratch_len)
    fn shape(&self, n: usize, adv: usize, fault: &ShapeFault) -> (usize, usize, usize) {
        let dl = |k: u8, delta: i32| -> usize { ((k as i64 * n as i64) + delta as i64).max(0) as usize };
        match fault {
            ShapeFault::Data { k, delta } => {
                let l = dl(*k, *delta);
                (l, l, adv)
            }
            ShapeFault::Out { delta } => (2 * n.max(1), ((2 * n.max(1)) as i64 + *delta).max(0) as usize, adv),
            ShapeFault::OutChunks { k, dk } => {
                let l = dl(*k, 0);
                (l, (l as i64 + *dk as i64 * n as i64).max(0) as usize, adv)
            }
            ShapeFault::ScratchZero => (n, n, 0),
            ShapeFault::ScratchMinus1 => (n, n, adv.saturating_sub(1)),
            ShapeFault::DataAndOut { k, delta, odelta } => {
                let l = dl(*k, *delta);
                (l, (l as i64 + *odelta).max(0) as usize, adv)
            }
            ShapeFault::OutAndScratch { delta } => (n, (n as i64 + *delta).max(0) as usize, adv.saturating_sub(1)),
            ShapeFault::EmptyData { out_chunks, out_extra, short_scratch } => (0, *out_chunks as usize * n + *out_extra as usize, if *short_scratch { adv.saturating_sub(1) } else { adv }),
        }
    }

    /// One call with arbitrary shape; returns (panicked, output-or-msg)
    #[allow(clippy::too_many_arguments)]
    fn shaped_call(&self, t: &mut TCtx<T>, fft: &Inst<T>, entry: Entry, input: &[Complex<T>], out_len: usize, scratch_len: usize, place: Place, inst_id: u32) -> CallRes<T> {
        let ro = entry == Entry::Immut && cfg!(not(miri)) && self.ro_props();
        self.real_call(t, fft, CallParams { entry, input, out_len, scratch_len, scratch_fill: Fill::Zero, out_fill: Fill::Zero, place, ro_input: ro }, inst_id)
    }

    #[allow(clippy::too_many_arguments)]
    fn judge_shape(&self, t: &mut TCtx<T>, fft: &Inst<T>, rf: &Inst<T>, entry: Entry, x: &[Complex<T>], out_len: usize, scratch_len: usize, place: Place, inst_id: u32) {
        let n = fft.len();
        let adv = advertised(fft, entry);
        let (o, s) = match entry {
            Entry::Process => (None, adv),
            Entry::InPlace => (None, scratch_len),
            _ => (Some(out_len), scratch_len),
        };
        let well = oracle::well_shaped(n, x.len(), o, s, adv);
        let what = format!("{:?} n={} data={} out={:?} scratch={} (advertised {})", entry, n, x.len(), o, s, adv);
        let res = self.shaped_call(t, fft, entry, x, out_len, scratch_len, place, inst_id);
        self.check_memory(t, &res, &what);
        self.count(if well { "shape.good" } else { "fault.shape" }, 1);
        t.log.add(res.out.is_ok() as u64);
        match (&res.out, well) {
            (Ok(o), true) => {
                // every chunk must have been transformed: compare with the isolated call
                if let Ok(r) = isolated_call(rf, entry, x) {
                    if !bits_eq(o, &r) {
                        self.report(t, "c09.good-wrong-output", format!("{}: returned normally but output differs from the isolated call at {:?}", what, first_diff(o, &r)));
                    }
                } else {
                    self.report(t, "c09.good-panicked", format!("{}: the isolated form of this well-shaped call panics", what));
                }
            }
            (Err(m), true) => self.report(t, "c09.good-panicked", format!("{}: well-shaped call panicked: {}", what, m)),
            (Ok(_), false) => {
                // empty data: C09 settles two cases - "input and output lengths differ" and "scratch shorter than
                // advertised" always panic; an empty call that is otherwise in order is not something the text settles
                let empty_must_panic = n > 0 && x.is_empty() && (o.map_or(false, |o| o != 0) || s < adv);
                if (n == 0 || x.is_empty()) && !empty_must_panic {
                    // see DESIGN (C09 scope note)
                    self.count("shape.unspecified", 1);
                } else {
                    self.report(t, "c09.bad-returned", format!("{}: ill-shaped call returned normally", what));
                    self.report(t, "c03.bad-returned", format!("{}: ill-shaped call returned normally instead of panicking", what));
                }
            }
            (Err(_), false) => {
                self.count("fault.unwind", 1);
            }
        }
    }

    fn exec_foreign(&self, t: &mut TCtx<T>, op: &Op) {
        let Op::Foreign { pk, len, dir, entry, k, seed, place, same_type } = op else { unreachable!() };
        let r = if *same_type {
            foreign_call::<T>(*pk, *len, *dir, *entry, *k, *seed, *place)
        } else if T::NAME == "f32" {
            foreign_call::<f64>(*pk, *len, *dir, *entry, *k, *seed, *place)
        } else {
            foreign_call::<f32>(*pk, *len, *dir, *entry, *k, *seed, *place)
        };
        self.count("op.foreign-type-call", 1);
        match r {
            Ok(h) => t.log.add(h),
            Err((kind, detail)) => {
                t.log.add(0xf0e1);
                let what = format!("call on a {} transform ({:?} len={} {:?} {:?} k={}) between this world's {} calls: {}", if *same_type { T::NAME } else if T::NAME == "f32" { "f64" } else { "f32" }, pk, len, dir, entry, k, T::NAME, detail);
                match kind {
                    "skip" => self.count("skipped.foreign", 1),
                    "canary" => self.report(t, "c03.canary-overwritten", what),
                    "panic" => {
                        let class = format!("{}.call-panicked", self.prefix);
                        self.report(t, &class, what)
                    }
                    _ => {
                        for cls in ["c11.bits-differ", "c10.bits-differ", "c03.foreign-bits-differ"] {
                            if crate::props::owns(&self.prefix, cls) {
                                self.report(t, cls, what.clone());
                            }
                        }
                    }
                }
            }
        }
    }

    fn exec_badcall(&self, t: &mut TCtx<T>, op: &Op) {
        let Op::BadCall { inst, entry, fault, place, seed } = op else { unreachable!() };
        let Some(fft) = self.resolve(t, *inst) else {
            self.count("skipped.no-instance", 1);
            return;
        };
        let n = fft.len();
        let adv = advertised(&fft, *entry);
        let (il, ol, sl) = self.shape(n, adv, fault);
        let x = gen_input::<T>(&InputSpec { seed: *seed, kind: InputKind::Dense }, il);
        let inst_id = match inst {
            InstRef::Shared(i) => *i as u32,
            InstRef::Local(i) => 1000 + *i as u32,
        };
        if self.is_ill(*inst) {
            let res = self.shaped_call(t, &fft, *entry, &x, ol, sl, *place, inst_id);
            self.check_memory(t, &res, "ill-shaped call on an ill-constructed instance");
            self.count("op.call.on-ill-constructed", 1);
            t.log.add(res.out.is_ok() as u64);
            return;
        }
        let rf = self.reference(t, *inst).unwrap_or_else(|| Arc::clone(&fft));
        self.judge_shape(t, &fft, &rf, *entry, &x, ol, sl, *place, inst_id);
    }

    fn exec_shapegrid(&self, t: &mut TCtx<T>, op: &Op) {
        let Op::ShapeGrid { inst, entry, kmax, seed } = op else { unreachable!() };
        let Some(fft) = self.resolve(t, *inst) else {
            self.count("skipped.no-instance", 1);
            return;
        };
        if self.is_ill(*inst) {
            self.count("skipped.shapegrid-on-ill-constructed", 1);
            return;
        }
        let rf = self.reference(t, *inst).unwrap_or_else(|| Arc::clone(&fft));
        let n = fft.len();
        let adv = advertised(&fft, *entry);
        let inst_id = match inst {
            InstRef::Shared(i) => *i as u32,
            InstRef::Local(i) => 1000 + *i as u32,
        };
        if n == 0 {
            // only: an empty buffer is accepted
            let res = self.shaped_call(t, &fft, *entry, &[], 0, adv, Place::Right, inst_id);
            if let Err(m) = res.out {
                self.report(t, "c09.good-panicked", format!("{:?} n=0: empty buffer rejected: {}", entry, m));
            }
            return;
        }
        let km = (*kmax).max(2) as usize;
        let mut dls: Vec<usize> = vec![1, n.saturating_sub(1), n, n + 1, 2 * n - 1, 2 * n, 2 * n + 1, km * n - 1, km * n, km * n + 1];
        dls.push(0);
        dls.sort();
        dls.dedup();
        let mut sls: Vec<usize> = vec![0, adv.saturating_sub(1), adv, adv + 1];
        sls.sort();
        sls.dedup();
        let mut rng = Rng::new(*seed);
        let mut pi = 0usize;
        for &dl in &dls {
            let x = gen_input::<T>(&InputSpec { seed: rng.next(), kind: InputKind::Dense }, dl);
            let ols: Vec<usize> = match entry {
                Entry::Process | Entry::InPlace => vec![dl],
                _ => {
                    let mut v = vec![dl, dl + 1, dl.saturating_sub(1), dl + n, dl.saturating_sub(n)];
                    v.sort();
                    v.dedup();
                    v
                }
            };
            for &ol in &ols {
                let scr: &[usize] = if *entry == Entry::Process { &sls[..1] } else { &sls };
                for &sl in scr {
                    let place = crate::arena::PLACES[pi % 4];
                    pi += 1;
                    self.judge_shape(t, &fft, &rf, *entry, &x, ol, sl, place, inst_id);
                }
            }
        }
        // the instance must still be usable after all those unwinds
        let x = gen_input::<T>(&InputSpec { seed: rng.next(), kind: InputKind::Dense }, n);
        let r1 = isolated_call(&rf, *entry, &x);
        let res = self.shaped_call(t, &fft, *entry, &x, n, adv, Place::Right, inst_id);
        match (&res.out, &r1) {
            (Ok(a), Ok(b)) if bits_eq(a, b) => {}
            _ => self.report(t, "c09.unusable-after-unwind", format!("{:?} n={}: instance does not return the reference result after ill-shaped calls", entry, n)),
        }
    }

    fn exec_scratchgrid(&self, t: &mut TCtx<T>, op: &Op) {
        let Op::ScratchGrid { inst, entry, k, input } = op else { unreachable!() };
        let Some(fft) = self.resolve(t, *inst) else {
            self.count("skipped.no-instance", 1);
            return;
        };
        let n = fft.len();
        let total = n * (*k as usize);
        let x = gen_input::<T>(input, total);
        let adv = advertised(&fft, *entry);
        let rf = self.reference(t, *inst).unwrap_or_else(|| Arc::clone(&fft));
        let Ok(reference) = isolated_call(&rf, *entry, &x) else {
            self.report(t, "c08.advertised-insufficient", format!("{:?} n={} k={}: call with zeroed scratch of the advertised length {} panics", entry, n, k, adv));
            return;
        };
        let lens = [adv, adv + 1, adv + 17, 2 * adv];
        let has_out = matches!(entry, Entry::OutOfPlace | Entry::Immut);
        let ofills: &[Fill] = if has_out { &FILLS } else { &FILLS[..1] };
        let mut pi = 0usize;
        // the order of the grid is rotated by the case's seed: which workspace contents the *first* call on a fresh instance
        // meets must not always be zeros (state an instance derives from its first call would otherwise always be benign)
        let rot = (input.seed % FILLS.len() as u64) as usize;
        let sfills: Vec<Fill> = (0..FILLS.len()).map(|i| FILLS[(i + rot) % FILLS.len()]).collect();
        for (li, &sl) in lens.iter().enumerate() {
            for &sf in sfills.iter() {
                for &of in ofills {
                    // exact-length scratch always ends on a guard page
                    let place = if li == 0 { Place::Right } else { crate::arena::PLACES[pi % 4] };
                    pi += 1;
                    let ro = *entry == Entry::Immut && cfg!(not(miri)) && self.ro_props();
                    let res = self.real_call(t, &fft, CallParams { entry: *entry, input: &x, out_len: total, scratch_len: sl, scratch_fill: sf, out_fill: of, place, ro_input: ro }, 0);
                    self.count("op.grid-call", 1);
                    if li > 0 {
                        self.count("fault.scratch.len", 1);
                    }
                    if sf != Fill::Zero {
                        self.count("fault.scratch.fill", 1);
                    }
                    if of != Fill::Zero {
                        self.count("fault.out.fill", 1);
                    }
                    let what = format!("{:?} n={} k={} scratch_len={} (advertised {}) scratch_fill={:?} out_fill={:?}", entry, n, k, sl, adv, sf, of);
                    self.check_memory(t, &res, &what);
                    match &res.out {
                        Ok(o) => {
                            t.log.add(elem::hash_slice(o));
                            if !bits_eq(o, &reference) {
                                self.report(t, "c08.bits-differ", format!("{}: output differs from the zero-workspace call at element {:?}", what, first_diff(o, &reference)));
                                return;
                            }
                        }
                        Err(m) => {
                            self.report(t, "c08.panic", format!("{}: call panicked: {}", what, m));
                            return;
                        }
                    }
                }
            }
        }
    }

    fn exec_poison(&self, t: &mut TCtx<T>, op: &Op) {
        let Op::Poison { inst, entry, k, keep, fill, input } = op else { unreachable!() };
        let Some(fft) = self.resolve(t, *inst) else {
            self.count("skipped.no-instance", 1);
            return;
        };
        let n = fft.len();
        if n == 0 {
            return;
        }
        let k = (*k).max(1) as usize;
        let keep = (*keep as usize) % k;
        let total = n * k;
        let benign = gen_input::<T>(input, total);
        let mut poisoned = benign.clone();
        let pv = fill_value::<T>(*fill);
        for (ci, ch) in poisoned.chunks_mut(n).enumerate() {
            if ci != keep {
                for e in ch {
                    *e = pv;
                }
            }
        }
        let what = format!("{:?} n={} k={} keep={} fill={:?}", entry, n, k, keep, fill);
        let rf = self.reference(t, *inst).unwrap_or_else(|| Arc::clone(&fft));
        let Ok(b) = isolated_call(&rf, *entry, &benign) else { return };
        let adv = advertised(&fft, *entry);
        let ro = *entry == Entry::Immut && cfg!(not(miri)) && self.ro_props();
        let res = self.real_call(t, &fft, CallParams { entry: *entry, input: &poisoned, out_len: total, scratch_len: adv, scratch_fill: Fill::Zero, out_fill: Fill::Zero, place: Place::Right, ro_input: ro }, 0);
        self.count("fault.neighbour.poison", 1);
        self.check_memory(t, &res, &what);
        match &res.out {
            Ok(o) => {
                t.log.add(elem::hash_slice(&o[keep * n..(keep + 1) * n]));
                if !bits_eq(&o[keep * n..(keep + 1) * n], &b[keep * n..(keep + 1) * n]) {
                    self.report(t, "c07.neighbour-leak", format!("{}: the kept chunk changed when its neighbours were poisoned", what));
                }
                // the kept chunk equals the chunk passed alone, up to rounding
                let single = isolated_call(&rf, *entry, &benign[keep * n..(keep + 1) * n]);
                if let Ok(s) = single {
                    let refc = oracle::to_c64(&s);
                    let err = oracle::l2_dist(&o[keep * n..(keep + 1) * n], &refc);
                    let den = oracle::l2_ref(&refc);
                    if !(err <= 2.0 * bound::<T>(n) * den) {
                        self.report(t, "c07.chunk-differs", format!("{}: chunk of the batched call differs from the same chunk passed alone: rel err {:.3e}", what, err / den));
                    }
                }
            }
            Err(m) => self.report(t, "c07.panic", format!("{}: batched call panicked: {}", what, m)),
        }
    }

    fn exec_split(&self, t: &mut TCtx<T>, op: &Op) {
        let Op::SplitChunk { inst, entry, buf, chunk } = op else { unreachable!() };
        let Some(fft) = self.resolve(t, *inst) else { return };
        let Some(Some(sb)) = self.shared.get(*buf as usize) else { return };
        let n = sb.n;
        let i = *chunk as usize;
        if n == 0 || i >= sb.def.k as usize || fft.len() != n {
            return;
        }
        let adv = advertised(&fft, *entry);
        let mut scratch = GBuf::<T>::new(adv, Place::Right);
        let (dp, _) = sb.data.raw();
        let (op_, _) = sb.out.raw();
        // this thread's own sub-slices of the shared allocations
        let data: &mut [Complex<T>] = unsafe { std::slice::from_raw_parts_mut(dp.add(i * n), n) };
        let out: &mut [Complex<T>] = unsafe { std::slice::from_raw_parts_mut(op_.add(i * n), n) };
        self.set_inside(t, Some(*buf as u32 + 500));
        sched::set_step_allowance(Some(step_allowance(2 * n + adv)));
        let r = catch_unwind(AssertUnwindSafe(|| match entry {
            Entry::Process => fft.process(data),
            Entry::InPlace => fft.process_with_scratch(data, scratch.as_mut()),
            Entry::OutOfPlace => fft.process_outofplace_with_scratch(data, out, scratch.as_mut()),
            Entry::Immut => fft.process_immutable_with_scratch(data, out, scratch.as_mut()),
        }));
        sched::set_step_allowance(None);
        self.set_inside(t, None);
        self.count("op.split-chunk", 1);
        match r {
            Ok(()) => {
                sb.touched.lock().unwrap()[i] = true;
            }
            Err(p) => {
                if p.downcast_ref::<SimAbort>().is_some() {
                    std::panic::resume_unwind(p);
                }
                self.report(t, "c07.panic", format!("single-chunk call on a sub-slice panicked: {}", panic_msg(&p)));
            }
        }
    }

    fn exec_shared_immut(&self, t: &mut TCtx<T>, op: &Op) {
        let Op::SharedImmut { inst, buf } = op else { unreachable!() };
        let Some(fft) = self.resolve(t, *inst) else { return };
        let Some(Some(sb)) = self.shared.get(*buf as usize) else { return };
        if fft.len() != sb.n {
            return;
        }
        let total = sb.n * sb.def.k as usize;
        let adv = fft.get_immutable_scratch_len();
        let mut out = GBuf::<T>::new(total, Place::Left);
        let mut scratch = GBuf::<T>::new(adv, Place::Right);
        self.set_inside(t, Some(*buf as u32 + 600));
        sched::set_step_allowance(Some(step_allowance(2 * total + adv)));
        let r = catch_unwind(AssertUnwindSafe(|| fft.process_immutable_with_scratch(sb.data.as_ref(), out.as_mut(), scratch.as_mut())));
        sched::set_step_allowance(None);
        self.set_inside(t, None);
        self.count("op.shared-immut", 1);
        match r {
            Ok(()) => {
                t.log.add(elem::hash_slice(out.as_ref()));
                if !bits_eq(sb.data.as_ref(), &sb.initial) {
                    self.report(t, "c15.input-modified", format!("shared immutable input changed (n={} k={})", sb.n, sb.def.k));
                }
            }
            Err(p) => {
                if p.downcast_ref::<SimAbort>().is_some() {
                    std::panic::resume_unwind(p);
                }
                self.report(t, "c15.panic", format!("well-shaped immutable call panicked: {}", panic_msg(&p)));
            }
        }
    }

    fn do_plan(&self, t: &mut TCtx<T>, planner: u16, len: usize, dir: Dir, via: bool) -> Option<Inst<T>> {
        let pi = planner as usize;
        if pi >= self.planners.len() || !self.planner_ok[pi] {
            self.count("skipped.no-planner", 1);
            return None;
        }
        let kind = self.case.planners[pi];
        let mut g = self.planners[pi].lock();
        if g.is_none() {
            *g = AnyPlanner::new(kind);
            self.count("op.new-planner", 1);
        }
        let r = catch_unwind(AssertUnwindSafe(|| {
            let p = g.as_mut().unwrap();
            if via {
                p.plan_via(len, dir)
            } else {
                p.plan(len, dir)
            }
        }));
        self.count("op.plan", 1);
        match r {
            Ok(f) => {
                self.history.lock().unwrap().push((Hist::Plan { planner, len, dir, via }, Some(Arc::clone(&f))));
                if let Some(s) = &self.sched {
                    s.log(t.tid, 0x91a0, len as u64, dir as u64 + 2 * planner as u64);
                }
                drop(g);
                if f.len() != len || Dir::from(f.fft_direction()) != dir {
                    for cls in ["c10.len-dir", "c06.direction", "c13.len-dir"] {
                        if cls.starts_with(&self.prefix) {
                            self.report(t, cls, format!("{:?} planner asked for len={} {:?}, got len={} {:?}", kind, len, dir, f.len(), f.fft_direction()));
                        }
                    }
                }
                Some(f)
            }
            Err(p) => {
                if p.downcast_ref::<SimAbort>().is_some() {
                    drop(g);
                    std::panic::resume_unwind(p);
                }
                let msg = panic_msg(&p);
                // the planner may be in an inconsistent state now: replace it
                *g = None;
                self.history.lock().unwrap().push((Hist::Drop { planner }, None));
                drop(g);
                // does a fresh planner show the same panic? then it is not history dependence
                let fresh = sched::suspended(|| catch_unwind(AssertUnwindSafe(|| AnyPlanner::<T>::new(kind).map(|mut p| p.plan(len, dir)))));
                if fresh.is_ok() {
                    self.report(t, "c10.plan-panic", format!("{:?} planner panicked planning len={} {:?} after its history, a fresh planner does not: {}", kind, len, dir, msg));
                }
                self.report(t, "c13.plan-panic", format!("{:?} planner panicked planning len={} {:?}: {}", kind, len, dir, msg));
                None
            }
        }
    }

    fn exec_roundtrip(&self, t: &mut TCtx<T>, op: &Op) {
        let Op::RoundTrip { planner, len, first, entry, input } = op else { unreachable!() };
        let a = self.do_plan(t, *planner, *len, *first, false);
        if let Some(s) = &self.sched {
            s.point(t.tid, sched::SITE_USER);
        }
        let b = self.do_plan(t, *planner, *len, first.opp(), true);
        let (Some(a), Some(b)) = (a, b) else { return };
        let (fwd, inv) = if *first == Dir::Fwd { (a, b) } else { (b, a) };
        let n = *len;
        if n == 0 {
            return;
        }
        self.count("op.roundtrip", 1);
        let x = gen_input::<T>(input, n);
        let xn = oracle::l2(&x);
        let bnd = bound::<T>(n);
        let what = format!("n={} {:?} planner {:?} first={:?}", n, entry, self.case.planners[*planner as usize], first);
        let (Ok(fx), Ok(ix)) = (isolated_call(&fwd, *entry, &x), isolated_call(&inv, *entry, &x)) else {
            self.report(t, "c06.panic", format!("{}: transform panicked", what));
            return;
        };
        let (Ok(ifx), Ok(fix)) = (isolated_call(&inv, *entry, &fx), isolated_call(&fwd, *entry, &ix)) else {
            self.report(t, "c06.panic", format!("{}: transform panicked", what));
            return;
        };
        let nx: Vec<C64> = x.iter().map(|v| (v.re.val() * n as f64, v.im.val() * n as f64)).collect();
        let tol = 3.0 * bnd * n as f64 * xn;
        let e1 = oracle::l2_dist(&ifx, &nx);
        let e2 = oracle::l2_dist(&fix, &nx);
        t.log.add(elem::hash_slice(&ifx));
        if !(e1 <= tol) || !(e2 <= tol) {
            self.report(t, "c06.roundtrip", format!("{}: inverse(forward(x)) / forward(inverse(x)) differ from n*x by {:.3e} / {:.3e} relative (allowed {:.3e})", what, e1 / (n as f64 * xn), e2 / (n as f64 * xn), 3.0 * bnd));
        }
        // inverse(x) == conj(forward(conj(x)))
        let cx: Vec<Complex<T>> = x.iter().map(|v| v.conj()).collect();
        if let Ok(fcx) = isolated_call(&fwd, *entry, &cx) {
            let refc: Vec<C64> = fcx.iter().map(|v| (v.re.val(), -v.im.val())).collect();
            let e = oracle::l2_dist(&ix, &refc);
            let tol = 3.0 * bnd * (n as f64).sqrt() * xn;
            if !(e <= tol) {
                self.report(t, "c06.conj", format!("{}: inverse(x) differs from conj(forward(conj(x))) by {:.3e} relative (allowed {:.3e})", what, e / ((n as f64).sqrt() * xn), 3.0 * bnd));
            }
        }
    }

    fn exec_crash(&self, t: &mut TCtx<T>, op: &Op) {
        let Op::Crash { inst, entry, k, input, at } = op else { unreachable!() };
        if T::SIMD {
            return;
        }
        let Some(fft) = self.resolve(t, *inst) else { return };
        let n = fft.len();
        let total = n * (*k as usize);
        let x = gen_input::<T>(input, total);
        elem::fx_reset_ops();
        // (the operation count must come from the instance itself; the twin gives the reference bits)
        let Ok(reference) = isolated_call(&fft, *entry, &x) else { return };
        let ops = elem::fx_ops();
        if ops == 0 {
            return;
        }
        let at = *at % ops;
        let adv = advertised(&fft, *entry);
        let what = format!("{:?} n={} k={} crash at arithmetic op {}/{}", entry, n, k, at, ops);
        elem::fx_arm(at);
        let ro = *entry == Entry::Immut && cfg!(not(miri)) && self.ro_props();
        let res = self.real_call(t, &fft, CallParams { entry: *entry, input: &x, out_len: total, scratch_len: adv, scratch_fill: Fill::Zero, out_fill: Fill::Zero, place: Place::Right, ro_input: ro }, 0);
        elem::fx_disarm();
        self.check_memory(t, &res, &what);
        match &res.out {
            Err(m) if m.contains(elem::FX_CRASH_MSG) => {
                self.count("fault.unwind.crash", 1);
            }
            Err(m) => self.report(t, "harness.crash-other-panic", format!("{}: {}", what, m)),
            Ok(_) => self.count("fault.crash.not-reached", 1),
        }
        // the instance must still work after the unwind
        let again = self.real_call(t, &fft, CallParams { entry: *entry, input: &x, out_len: total, scratch_len: adv, scratch_fill: Fill::Zero, out_fill: Fill::Zero, place: Place::Left, ro_input: ro }, 0);
        match &again.out {
            Ok(o) if bits_eq(o, &reference) => {}
            _ => {
                for cls in ["c11.after-crash-differs", "c15.after-crash-differs"] {
                    if cls.starts_with(&self.prefix) {
                        self.report(t, cls, format!("{}: the instance no longer returns the reference result after a panic unwound through it", what));
                    }
                }
            }
        }
    }

    fn exec_hostcheck(&self, t: &mut TCtx<T>) {
        let host = self.case.host;
        let avx_compiled = cfg!(feature = "avx");
        let sse_compiled = cfg!(feature = "sse");
        let want_avx = avx_compiled && (host & 2 != 0) && (host & 4 != 0) && T::SIMD;
        let want_sse = sse_compiled && (host & 1 != 0) && T::SIMD;
        let r = catch_unwind(AssertUnwindSafe(|| {
            (
                rustfft::FftPlannerAvx::<T>::new().is_ok(),
                rustfft::FftPlannerSse::<T>::new().is_ok(),
                rustfft::FftPlannerNeon::<T>::new().is_ok(),
                rustfft::FftPlannerWasmSimd::<T>::new().is_ok(),
                {
                    let _p = rustfft::FftPlanner::<T>::new();
                    let _q = rustfft::FftPlannerScalar::<T>::new();
                    true
                },
            )
        }));
        self.count("op.hostcheck", 1);
        match r {
            Ok((avx, sse, neon, wasm, _)) => {
                t.log.add(avx as u64 + 2 * sse as u64);
                if avx != want_avx || sse != want_sse || neon || wasm {
                    self.report(t, "c13.constructor-model", format!("host mask {:#x} features(avx={},sse={}) elem {}: FftPlannerAvx::new().is_ok()={} (model {}), FftPlannerSse::new().is_ok()={} (model {}), neon={}, wasm={}", host, avx_compiled, sse_compiled, T::NAME, avx, want_avx, sse, want_sse, neon, wasm));
                }
            }
            Err(p) => self.report(t, "c13.constructor-panic", format!("a planner constructor panicked under host mask {:#x}: {}", host, panic_msg(&p))),
        }
    }

    fn exec_op(&self, t: &mut TCtx<T>, op: &Op) {
        match op {
            Op::Call { .. } => self.exec_call(t, op),
            Op::BadCall { .. } => self.exec_badcall(t, op),
            Op::Plan { planner, len, dir, via, slot } => {
                let f = self.do_plan(t, *planner, *len, *dir, *via);
                let s = *slot as usize;
                if t.slots.len() <= s {
                    t.slots.resize(s + 1, None);
                }
                t.slots[s] = f;
            }
            Op::RoundTrip { .. } => self.exec_roundtrip(t, op),
            Op::DropPlanner { planner } => {
                let pi = *planner as usize;
                if pi < self.planners.len() && self.planner_ok[pi] {
                    let mut g = self.planners[pi].lock();
                    *g = None;
                    self.history.lock().unwrap().push((Hist::Drop { planner: *planner }, None));
                    self.count("fault.planner.drop", 1);
                }
            }
            Op::ScratchGrid { .. } => self.exec_scratchgrid(t, op),
            Op::ShapeGrid { .. } => self.exec_shapegrid(t, op),
            Op::Crash { .. } => self.exec_crash(t, op),
            Op::SplitChunk { .. } => self.exec_split(t, op),
            Op::Poison { .. } => self.exec_poison(t, op),
            Op::SharedImmut { .. } => self.exec_shared_immut(t, op),
            Op::HostCheck => self.exec_hostcheck(t),
            Op::Foreign { .. } => self.exec_foreign(t, op),
            Op::BigBatch { .. } => self.exec_bigbatch(t, op),
        }
        // bounded liveness: a call that passed more scheduling points than any terminating call of its size can
        let hits = sched::take_budget_hits();
        if hits > 0 {
            self.report(t, "liveness.step-budget", format!("{} call(s) in op {} exceeded the scheduling-step allowance for their size: the call does not terminate", hits, op_name(op)));
        }
        // C13: the simulator's stand-in for SIGILL on a lesser CPU
        let above = rustfft::verif_hooks::take_above_host();
        if above != 0 {
            self.report(t, "c13.kernel-above-host", format!("a SIMD kernel requiring feature bits {:#x} ran although the simulated host (mask {:#x}) lacks them, during {:?}", above, self.case.host, op_name(op)));
        }
    }

    fn thread_body(self: &Arc<Self>, tid: usize) -> u64 {
        let mut t = TCtx::<T> { tid, op: 0, slots: Vec::new(), leftover_scratch: Vec::new(), leftover_out: Vec::new(), log: Hasher64::default() };
        let ops = self.case.threads[tid].clone();
        for (oi, op) in ops.iter().enumerate() {
            t.op = oi;
            if let Some(s) = &self.sched {
                s.point(tid, sched::SITE_OP);
                s.log(tid, 0x0b, oi as u64, 0);
            }
            CURRENT_OP.store(((tid as u64) << 32) | oi as u64, Ordering::Relaxed);
            let r = catch_unwind(AssertUnwindSafe(|| self.exec_op(&mut t, op)));
            if let Err(p) = r {
                elem::fx_disarm();
                if p.downcast_ref::<SimAbort>().is_some() {
                    std::panic::resume_unwind(p);
                }
                self.report(&t, "harness.op-panic", format!("op {:?} panicked outside any catch: {}", op_name(op), panic_msg(&p)));
            }
            if let Some(s) = &self.sched {
                s.log(tid, 0x0e, oi as u64, t.log.get());
            }
        }
        t.log.get()
    }
}

pub fn op_name(op: &Op) -> &'static str {
    match op {
        Op::Call { .. } => "Call",
        Op::BadCall { .. } => "BadCall",
        Op::Plan { .. } => "Plan",
        Op::RoundTrip { .. } => "RoundTrip",
        Op::DropPlanner { .. } => "DropPlanner",
        Op::ScratchGrid { .. } => "ScratchGrid",
        Op::ShapeGrid { .. } => "ShapeGrid",
        Op::Crash { .. } => "Crash",
        Op::Foreign { .. } => "Foreign",
        Op::BigBatch { .. } => "BigBatch",
        Op::SplitChunk { .. } => "SplitChunk",
        Op::Poison { .. } => "Poison",
        Op::SharedImmut { .. } => "SharedImmut",
        Op::HostCheck => "HostCheck",
    }
}

fn build_world<T: Elem>(case: &Case, sched: Option<Arc<Sched>>) -> World<T> {
    let prefix = case.prop.to_lowercase();
    let mut w = World::<T> {
        case: case.clone(),
        prefix,
        insts: Vec::new(),
        refs: Vec::new(),
        planners: Vec::new(),
        planner_ok: Vec::new(),
        history: Mutex::new(Vec::new()),
        shared: Vec::new(),
        viol: Mutex::new(Vec::new()),
        counters: Mutex::new(BTreeMap::new()),
        worst_ratio: Mutex::new(0.0),
        sched,
    };
    for (i, k) in case.planners.iter().enumerate() {
        let p = catch_unwind(|| AnyPlanner::<T>::new(*k));
        match p {
            Ok(p) => {
                w.planner_ok.push(p.is_some());
                w.planners.push(SimMutex::new(i, p));
            }
            Err(e) => {
                w.report_at(-1, i as i32, "c13.constructor-panic", format!("planner constructor {:?} panicked: {}", k, panic_msg(&e)));
                w.planner_ok.push(false);
                w.planners.push(SimMutex::new(i, None));
            }
        }
    }
    for (i, d) in case.insts.iter().enumerate() {
        let r = catch_unwind(AssertUnwindSafe(|| -> Result<Inst<T>, String> {
            if let Some(pi) = d.from_planner {
                let pi = pi as usize;
                if pi >= w.planners.len() || !w.planner_ok[pi] {
                    return Err("planner unavailable".into());
                }
                let mut g = w.planners[pi].lock();
                if g.is_none() {
                    *g = AnyPlanner::new(case.planners[pi]);
                }
                let f = g.as_mut().unwrap().plan(d.spec.len(), d.dir);
                w.history.lock().unwrap().push((Hist::Plan { planner: pi as u16, len: d.spec.len(), dir: d.dir, via: false }, Some(Arc::clone(&f))));
                Ok(f)
            } else {
                world::build::<T>(&d.spec, d.dir)
            }
        }));
        match r {
            Ok(Ok(f)) if d.spec.is_ill() => {
                // the constructor accepted a violated precondition: nothing is demanded of its numbers any more, but every
                // call on it must still stay inside the caller's buffers (C03 memory oracles only)
                w.count("fault.ctor.precondition.accepted", 1);
                w.insts.push(Some(f))
            }
            Ok(Ok(f)) => {
                if f.len() != d.spec.len() || Dir::from(f.fft_direction()) != d.dir {
                    w.report_at(-1, i as i32, &format!("{}.len-dir", w.prefix), format!("{} {:?}: built instance reports len={} {:?}", d.spec.short(), d.dir, f.len(), f.fft_direction()));
                }
                w.insts.push(Some(f))
            }
            Ok(Err(why)) => {
                w.count(&format!("skipped.build.{}", why.split(' ').next().unwrap_or("")), 1);
                w.insts.push(None);
            }
            Err(_) if d.spec.is_ill() => {
                w.count("fault.ctor.precondition.panicked", 1);
                w.insts.push(None);
            }
            Err(p) => {
                let msg = panic_msg(&p);
                for cls in ["c03.build-panic", "c13.build-panic", "c12.build-panic"] {
                    if cls.starts_with(&w.prefix) {
                        w.report_at(-1, i as i32, cls, format!("building {} {:?} within documented preconditions panicked: {}", d.spec.short(), d.dir, msg));
                    }
                }
                w.count("skipped.build.panic", 1);
                w.insts.push(None);
            }
        }
    }
    // twin instances for the isolated reference calls: same specifications, twin planners fed the same prologue requests
    {
        let mut twin_planners: Vec<Option<AnyPlanner<T>>> = case.planners.iter().map(|_| None).collect();
        for (i, d) in case.insts.iter().enumerate() {
            if w.insts[i].is_none() {
                w.refs.push(None);
                continue;
            }
            let r = catch_unwind(AssertUnwindSafe(|| -> Result<Inst<T>, String> {
                if let Some(pi) = d.from_planner {
                    let pi = pi as usize;
                    if twin_planners[pi].is_none() {
                        twin_planners[pi] = AnyPlanner::new(case.planners[pi]);
                    }
                    match twin_planners[pi].as_mut() {
                        Some(p) => Ok(p.plan(d.spec.len(), d.dir)),
                        None => Err("planner unavailable".into()),
                    }
                } else {
                    world::build::<T>(&d.spec, d.dir)
                }
            }));
            w.refs.push(match r {
                Ok(Ok(f)) => Some(f),
                _ => None,
            });
        }
    }
    for d in case.shared_bufs.iter() {
        let Some(Some(fft)) = w.refs.get(d.inst as usize).or(w.insts.get(d.inst as usize)) else {
            w.shared.push(None);
            continue;
        };
        let n = fft.len();
        let total = n * d.k as usize;
        let initial = gen_input::<T>(&d.input, total);
        let batch_out = isolated_call(fft, d.entry, &initial).ok();
        let data = GBuf::from_slice(&initial, d.place);
        let out = GBuf::<T>::new(total, other_place(d.place));
        w.shared.push(Some(SharedBuf { def: d.clone(), n, initial, data, out, batch_out, touched: Mutex::new(vec![false; d.k as usize]) }));
    }
    w
}

fn epilogue<T: Elem>(w: &World<T>) {
    // C07: the split world — every chunk processed through its own sub-slice by some thread
    for sb in w.shared.iter().flatten() {
        let Some(Some(fft)) = w.refs.get(sb.def.inst as usize).or(w.insts.get(sb.def.inst as usize)) else { continue };
        let touched = sb.touched.lock().unwrap().clone();
        if !touched.iter().any(|x| *x) {
            continue;
        }
        let n = sb.n;
        let result: &[Complex<T>] = match sb.def.entry {
            Entry::Process | Entry::InPlace => sb.data.as_ref(),
            _ => sb.out.as_ref(),
        };
        for (i, was) in touched.iter().enumerate() {
            if !*was {
                continue;
            }
            let chunk_in = &sb.initial[i * n..(i + 1) * n];
            let got = &result[i * n..(i + 1) * n];
            if let Ok(single) = isolated_call(fft, sb.def.entry, chunk_in) {
                if !bits_eq(got, &single) {
                    w.report_at(-1, i as i32, "c07.split-differs", format!("{:?} n={}: chunk {} processed through its own sub-slice next to concurrently processed neighbours differs from the chunk passed alone (element {:?})", sb.def.entry, n, i, first_diff(got, &single)));
                }
                if let Some(b) = &sb.batch_out {
                    let refc = oracle::to_c64(&single);
                    let err = oracle::l2_dist(&b[i * n..(i + 1) * n], &refc);
                    let den = oracle::l2_ref(&refc);
                    if !(err <= 2.0 * bound::<T>(n) * den) {
                        w.report_at(-1, i as i32, "c07.chunk-differs", format!("{:?} n={} k={}: chunk {} of the batched call differs from the chunk passed alone: rel err {:.3e}", sb.def.entry, n, sb.def.k, i, err / den));
                    }
                }
            }
            if sb.def.entry == Entry::Immut && !bits_eq(&sb.data.as_ref()[i * n..(i + 1) * n], chunk_in) {
                w.report_at(-1, i as i32, "c15.input-modified", format!("split immutable input chunk {} changed", i));
            }
        }
        if sb.batch_out.is_none() && n > 0 {
            w.report_at(-1, 0, "c07.panic", format!("{:?} n={} k={}: batched call panicked", sb.def.entry, n, sb.def.k));
        }
    }
    // C10: twin planners fed the linearised history must return transforms with bit-identical outputs
    if w.case.twin {
        let hist = w.history.lock().unwrap().clone();
        // long histories are replayed by two independent twins: what a planner does once its caches are large may depend on
        // state every planner draws for itself (hash keys), and each twin is one more draw
        let rounds = if hist.len() > 100 { 2 } else { 1 };
        for round in 0..rounds {
        let mut twins: Vec<Option<AnyPlanner<T>>> = w.case.planners.iter().map(|k| AnyPlanner::new(*k)).collect();
        let mut rng = Rng::new(w.case.sched_seed ^ 0x7717 ^ ((round as u64) << 40));
        for (hi, (h, orig)) in hist.iter().enumerate() {
            match h {
                Hist::Drop { planner } => twins[*planner as usize] = None,
                Hist::Plan { planner, len, dir, via } => {
                    let pi = *planner as usize;
                    if twins[pi].is_none() {
                        twins[pi] = AnyPlanner::new(w.case.planners[pi]);
                    }
                    let Some(tp) = twins[pi].as_mut() else { continue };
                    let r = catch_unwind(AssertUnwindSafe(|| if *via { tp.plan_via(*len, *dir) } else { tp.plan(*len, *dir) }));
                    let Some(orig) = orig else { continue };
                    match r {
                        Err(p) => {
                            w.report_at(-2, hi as i32, "c10.twin-panicked", format!("history entry {}: twin planner panicked planning len={} {:?}: {}", hi, len, dir, panic_msg(&p)));
                            twins[pi] = None;
                        }
                        Ok(tw) => {
                            w.count("oracle.twin", 1);
                            let k = 1 + (rng.below(2) as usize);
                            let x = gen_input::<T>(&InputSpec { seed: rng.next(), kind: InputKind::Dense }, len * k);
                            for e in [Entry::InPlace, Entry::Immut, Entry::OutOfPlace] {
                                let a = isolated_call(orig, e, &x);
                                let b = isolated_call(&tw, e, &x);
                                let same = match (&a, &b) {
                                    (Ok(a), Ok(b)) => bits_eq(a, b),
                                    (Err(_), Err(_)) => true,
                                    _ => false,
                                };
                                if !same {
                                    w.report_at(-2, hi as i32, "c10.twin-differs", format!("history entry {} (len={} {:?} on {:?}): the transform of a twin planner fed the same request sequence gives different output bits through {:?}", hi, len, dir, w.case.planners[pi], e));
                                    break;
                                }
                            }
                        }
                    }
                }
            }
        }
        }
    }
}

fn run_t<T: Elem>(case: &Case, free_run: bool) -> RunOut {
    rustfft::verif_hooks::set_cpu_mask(case.host);
    rustfft::verif_hooks::take_above_host();
    let nthreads = case.threads.len().max(1);
    let mut case = case.clone();
    if case.threads.is_empty() {
        case.threads.push(Vec::new());
    }
    let sched = if free_run {
        None
    } else {
        Some(Sched::new(nthreads, case.policy.clone(), Rng::new(case.sched_seed), case.budget.max(1000), case.planners.len()))
    };
    let w = Arc::new(build_world::<T>(&case, sched.clone()));
    // C15 monitor: shared immutable inputs keep their bits at every scheduling point
    for sb in w.shared.iter().flatten() {
        if sb.def.entry == Entry::Immut {
            sb.data.protect_ro();
        }
    }
    if let Some(s) = &sched {
        let wm = Arc::clone(&w);
        if w.shared.iter().flatten().any(|sb| sb.def.entry == Entry::Immut) && case.prop == "C15" {
            // The comparison costs O(elements) and there is one scheduling point per chunk at every nesting level, so for
            // long buffers it runs at every (elements/2048)-th point only (a pure function of the step counter); natively the
            // shared input is also mapped read-only for the whole run, so a store faults at once whatever the stride.
            let total: usize = w.shared.iter().flatten().filter(|sb| sb.def.entry == Entry::Immut).map(|sb| sb.initial.len()).sum();
            let stride = (total / 2048).max(1) as u64;
            s.add_monitor(Box::new(move |step| {
                if step % stride != 0 {
                    return None;
                }
                for sb in wm.shared.iter().flatten() {
                    if sb.def.entry == Entry::Immut && !bits_eq(sb.data.as_ref(), &sb.initial) {
                        return Some(("c15.input-modified-during".to_string(), format!("shared immutable input differs from its pristine copy at scheduling step {}", step)));
                    }
                }
                None
            }));
        }
    }
    let thread_logs = Arc::new(Mutex::new(vec![0u64; nthreads]));
    let sched_report = if let Some(s) = &sched {
        let mut bodies: Vec<Box<dyn FnOnce() + Send>> = Vec::new();
        for tid in 0..nthreads {
            let w2 = Arc::clone(&w);
            let tl = Arc::clone(&thread_logs);
            bodies.push(Box::new(move || {
                let h = w2.thread_body(tid);
                tl.lock().unwrap()[tid] = h;
            }));
        }
        s.run(bodies)
    } else {
        let mut hs = Vec::new();
        for tid in 0..nthreads {
            let w2 = Arc::clone(&w);
            let tl = Arc::clone(&thread_logs);
            hs.push(std::thread::spawn(move || {
                let h = w2.thread_body(tid);
                tl.lock().unwrap()[tid] = h;
            }));
        }
        for h in hs {
            let _ = h.join();
        }
        SchedReport::default()
    };
    for sb in w.shared.iter().flatten() {
        sb.data.protect_rw();
    }
    sched::suspended(|| epilogue(&w));
    rustfft::verif_hooks::set_cpu_mask(!0);
    let mut out = RunOut::default();
    for (class, detail) in &sched_report.violations {
        w.report_at(-3, -1, class, detail.clone());
    }
    out.violations = w.viol.lock().unwrap().clone();
    out.counters = w.counters.lock().unwrap().clone();
    out.worst_ratio = *w.worst_ratio.lock().unwrap();
    let mut h = Hasher64::default();
    h.add(sched_report.log_hash);
    for l in thread_logs.lock().unwrap().iter() {
        h.add(*l);
    }
    for v in &out.violations {
        h.add_str(&v.class);
    }
    out.log_hash = h.get();
    out.calls = out.counters.iter().filter(|(k, _)| k.starts_with("op.")).map(|(_, v)| *v).sum();
    out.sched = sched_report;
    out
}

/// Runs one case under Engine A (baton scheduler) or free-running threads (Engine B / Miri).
pub fn run_case(case: &Case, free_run: bool) -> RunOut {
    match case.elem {
        ElemKind::F32 => run_t::<f32>(case, free_run),
        ElemKind::F64 => run_t::<f64>(case, free_run),
        ElemKind::Fx => run_t::<Fx>(case, free_run),
    }
}

/// Calibration: the same program without preemption; returns the step count (for PCT and the step budget).
pub fn calibrate(case: &Case) -> u64 {
    let mut c = case.clone();
    c.policy = Policy::Seq;
    c.budget = u64::MAX / 4;
    c.twin = false;
    run_case(&c, false).sched.steps
}

#[allow(dead_code)]
pub fn pk_available<T: Elem>(k: PK) -> bool {
    AnyPlanner::<T>::new(k).is_some()
}
