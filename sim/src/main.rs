//! rfsim — deterministic simulation with fault injection for RustFFT.
//!   supervise : run N seeded cases of one property over worker processes, minimise + write replays, write evidence
//!   worker    : execute a strided range of cases (internal)
//!   exec-case : execute one case given as JSON (internal, used by the minimiser and by replay)
//!   replay    : re-execute a replay file; exit 1 when the recorded violation class reproduces
//!   miri-case : Engine B entry point (free-running threads; meant to run under `cargo miri run`)
//!   show      : print the generated case of a run index

mod arena;
mod elem;
mod exec;
mod minimise;
mod oracle;
mod pools;
mod prng;
mod program;
mod props;
mod sched;
mod supervise;
mod world;

use program::Case;
use props::Tier;
use std::collections::HashMap;

pub fn args_map(args: &[String]) -> HashMap<String, String> {
    let mut m = HashMap::new();
    let mut i = 0;
    while i < args.len() {
        if let Some(k) = args[i].strip_prefix("--") {
            if i + 1 < args.len() && !args[i + 1].starts_with("--") {
                m.insert(k.to_string(), args[i + 1].clone());
                i += 2;
                continue;
            }
            m.insert(k.to_string(), "1".to_string());
        } else {
            m.insert(format!("_{}", m.len()), args[i].clone());
        }
        i += 1;
    }
    m
}

/// Root of the verification tree (a `vp run` snapshot sets VERIF_HOME to its own copy).
pub fn home() -> String {
    std::env::var("VERIF_HOME").unwrap_or_else(|_| "/verif".to_string())
}

pub fn silence_panics() {
    std::panic::set_hook(Box::new(|_| {}));
}

pub fn case_hash(case: &Case) -> u64 {
    let s = serde_json::to_string(case).unwrap();
    let mut h = prng::Hasher64::default();
    h.add_str(&s);
    h.get()
}

/// Prepares a generated case for execution: PCT needs the step estimate of a calibration pass.
pub fn prepare(case: &mut Case) {
    if let sched::Policy::Pct { depth, est_steps } = &case.policy {
        if *est_steps == 0 {
            let d = *depth;
            let steps = exec::calibrate(case);
            case.policy = sched::Policy::Pct { depth: d, est_steps: steps.max(1) };
        }
    }
}

fn main() {
    let argv: Vec<String> = std::env::args().collect();
    if argv.len() < 2 {
        eprintln!("usage: rfsim <supervise|worker|exec-case|replay|miri-case|show> ...");
        std::process::exit(2);
    }
    let a = args_map(&argv[2..]);
    let tier = Tier { thorough: a.get("tier").map(|s| s == "thorough").unwrap_or(false) };
    let seed: u64 = a.get("seed").and_then(|s| s.parse().ok()).unwrap_or(1);
    match argv[1].as_str() {
        "supervise" => std::process::exit(supervise::supervise(&a)),
        "worker" => supervise::worker(&a),
        "worker-hashes" => std::process::exit(supervise::worker_hashes(&a)),
        "exec-case" => {
            silence_panics();
            arena::install_fault_handler();
            rustfft::verif_hooks::set_sched_hook(Some(sched::hook));
            let path = a.get("_0").expect("case file");
            let text = std::fs::read_to_string(path).expect("read case");
            let mut case: Case = serde_json::from_str(&text).expect("parse case");
            prepare(&mut case);
            arena::CURRENT_RUN.store(0, std::sync::atomic::Ordering::Relaxed);
            let out = exec::run_case(&case, case.free_run);
            println!("OUT {}", serde_json::to_string(&out).unwrap());
        }
        "replay" => std::process::exit(minimise::replay(a.get("_0").expect("replay file"))),
        "show" => {
            let prop = a.get("prop").expect("--prop");
            let index: u64 = a.get("index").and_then(|s| s.parse().ok()).unwrap_or(0);
            let case = props::gen_case(prop, tier, seed, index, a.contains_key("miri"));
            println!("{}", serde_json::to_string_pretty(&case).unwrap());
        }
        "nests" => {
            let n = pools::systematic_nests();
            println!("level1={} level2={}", pools::small_level1().len(), n.len());
            for s in n.iter().step_by(n.len() / 12) {
                println!("  {} len={}", s.short(), s.len());
            }
        }
        "miri-case" => {
            // Engine B: the case comes from argv (never from the shell environment)
            let prop = a.get("prop").expect("--prop");
            let from: u64 = a.get("from").and_then(|s| s.parse().ok()).unwrap_or(0);
            let to: u64 = a.get("to").and_then(|s| s.parse().ok()).unwrap_or(from + 1);
            silence_panics();
            let mut bad = 0;
            for index in from..to {
                let case = props::gen_case(prop, tier, seed, index, true);
                let out = exec::run_case(&case, true);
                let ops: usize = case.op_count();
                println!("MIRI-CASE prop={} index={} elem={:?} insts={} threads={} ops={} calls={} violations={}", prop, index, case.elem, case.insts.iter().map(|i| i.spec.short()).collect::<Vec<_>>().join(","), case.threads.len(), ops, out.calls, out.violations.len());
                for v in &out.violations {
                    println!("MIRI-VIOLATION index={} class={} detail={}", index, v.class, v.detail);
                    bad += 1;
                }
            }
            if bad > 0 {
                std::process::exit(1);
            }
        }
        other => {
            eprintln!("rfsim: unknown subcommand {}", other);
            std::process::exit(2);
        }
    }
}
