//! Minimisation and replay. Candidates are executed in child processes (a violation may be a crash),
//! and a shrink step is kept only while the same violation class persists. The result pins the
//! schedule as an explicit switch list, so the replay file is a pure function of itself and the code.

use crate::exec::{RunOut, Violation};
use crate::program::*;
use crate::sched::Policy;
use serde::{Deserialize, Serialize};
use std::io::Read;
use std::process::{Command, Stdio};
use std::time::{Duration, Instant};

#[derive(Serialize, Deserialize, Debug, Clone)]
pub struct ReplayFile {
    pub property: String,
    pub engine: String,
    pub flavour: String,
    pub verif_seed: u64,
    pub run_index: u64,
    pub violation: Violation,
    pub minimised_from: serde_json::Value,
    pub minimised_to: serde_json::Value,
    pub event_log_hash: u64,
    pub case: Case,
    /// the violation did not show in every fresh process (the code under test depends on a source the simulator does not
    /// own, e.g. a randomly keyed HashMap that is iterated): replay retries a few times
    #[serde(default)]
    pub nondeterministic: bool,
}

pub enum ChildRes {
    Out(RunOut),
    Crash(String, String),
    Timeout,
}

pub fn run_child(bin: &str, case: &Case, tmp: &str, timeout_s: u64) -> ChildRes {
    run_child_backend(bin, case, tmp, timeout_s, false)
}

/// `threads`: force the parked-OS-thread backend (every simulated thread has its own OS thread, hence its own
/// `thread_local!` state, as real callers would).
pub fn run_child_backend(bin: &str, case: &Case, tmp: &str, timeout_s: u64, threads: bool) -> ChildRes {
    let _ = std::fs::create_dir_all(tmp);
    let path = format!("{}/cand-{}.json", tmp, std::process::id());
    std::fs::write(&path, serde_json::to_string(case).unwrap()).expect("write candidate");
    let mut child = match Command::new(bin)
        .arg("exec-case")
        .arg(&path)
        .stdout(Stdio::piped())
        .stderr(Stdio::piped())
        .env("ASAN_OPTIONS", "detect_leaks=0:abort_on_error=1:allow_user_segv_handler=1:handle_segv=0:handle_sigbus=0:handle_sigill=0")
        .env("RFSIM_BACKEND", if threads { "threads" } else { "default" })
        .spawn()
    {
        Ok(c) => c,
        Err(e) => return ChildRes::Crash("harness.spawn".into(), e.to_string()),
    };
    let mut so = child.stdout.take().unwrap();
    let mut se = child.stderr.take().unwrap();
    let h1 = std::thread::spawn(move || {
        let mut s = String::new();
        let _ = so.read_to_string(&mut s);
        s
    });
    let h2 = std::thread::spawn(move || {
        let mut s = String::new();
        let _ = se.read_to_string(&mut s);
        s
    });
    let t0 = Instant::now();
    let status = loop {
        match child.try_wait() {
            Ok(Some(s)) => break Some(s),
            Ok(None) => {
                if t0.elapsed() > Duration::from_secs(timeout_s) {
                    let _ = child.kill();
                    let _ = child.wait();
                    break None;
                }
                std::thread::sleep(Duration::from_millis(2));
            }
            Err(_) => break None,
        }
    };
    let out = h1.join().unwrap_or_default();
    let err = h2.join().unwrap_or_default();
    let _ = std::fs::remove_file(&path);
    let Some(status) = status else { return ChildRes::Timeout };
    if let Some(l) = out.lines().find(|l| l.starts_with("OUT ")) {
        if let Ok(o) = serde_json::from_str::<RunOut>(&l[4..]) {
            return ChildRes::Out(o);
        }
    }
    if err.contains("AddressSanitizer") {
        let l = err.lines().find(|l| l.contains("ERROR: AddressSanitizer")).unwrap_or("").to_string();
        return ChildRes::Crash("c03.asan-report".into(), l);
    }
    if let Some(l) = out.lines().find(|l| l.starts_with("FAULT ")) {
        return ChildRes::Crash("crash.hw-fault".into(), l.to_string());
    }
    ChildRes::Crash("crash.abort".into(), format!("status {} {}", status, err.lines().last().unwrap_or("")))
}

/// Maps a child result to the violation classes it shows, in the vocabulary of the supervisor.
fn classes(prop: &str, r: &ChildRes) -> Vec<(String, String)> {
    let prefix = prop.to_lowercase();
    match r {
        ChildRes::Out(o) => o.violations.iter().map(|v| (v.class.clone(), v.detail.clone())).collect(),
        ChildRes::Crash(c, d) => {
            let c = if c.starts_with("crash.") { format!("{}.{}", prefix, c.replace("crash.", "process-")) } else { c.clone() };
            vec![(c, d.clone())]
        }
        ChildRes::Timeout => vec![("liveness.hang".into(), "child timed out".into())],
    }
}

fn has_class(prop: &str, r: &ChildRes, class: &str) -> Option<String> {
    classes(prop, r).into_iter().find(|(c, _)| c == class).map(|(_, d)| d)
}

fn simplify_op(op: &Op) -> Vec<Op> {
    let mut v = Vec::new();
    match op {
        Op::Call { inst, entry, k, input, scratch_extra, scratch_fill, out_fill, place, dft_ref } => {
            if *k > 1 {
                v.push(Op::Call { inst: *inst, entry: *entry, k: 1, input: *input, scratch_extra: *scratch_extra, scratch_fill: *scratch_fill, out_fill: *out_fill, place: *place, dft_ref: *dft_ref });
            }
            if *scratch_extra != 0 || *scratch_fill != Fill::Zero || *out_fill != Fill::Zero {
                v.push(Op::Call { inst: *inst, entry: *entry, k: *k, input: *input, scratch_extra: 0, scratch_fill: Fill::Zero, out_fill: Fill::Zero, place: *place, dft_ref: *dft_ref });
            }
            if *place != crate::arena::Place::Right {
                v.push(Op::Call { inst: *inst, entry: *entry, k: *k, input: *input, scratch_extra: *scratch_extra, scratch_fill: *scratch_fill, out_fill: *out_fill, place: crate::arena::Place::Right, dft_ref: *dft_ref });
            }
            if input.kind != InputKind::Impulse(0) {
                v.push(Op::Call { inst: *inst, entry: *entry, k: *k, input: InputSpec { seed: input.seed, kind: InputKind::Impulse(0) }, scratch_extra: *scratch_extra, scratch_fill: *scratch_fill, out_fill: *out_fill, place: *place, dft_ref: *dft_ref });
            }
        }
        Op::Poison { inst, entry, k, keep, fill, input } => {
            if *k > 2 {
                v.push(Op::Poison { inst: *inst, entry: *entry, k: 2, keep: *keep % 2, fill: *fill, input: *input });
            }
        }
        Op::ScratchGrid { inst, entry, k, input } => {
            if *k > 1 {
                v.push(Op::ScratchGrid { inst: *inst, entry: *entry, k: 1, input: *input });
            }
        }
        Op::ShapeGrid { inst, entry, kmax, seed } => {
            if *kmax > 2 {
                v.push(Op::ShapeGrid { inst: *inst, entry: *entry, kmax: 2, seed: *seed });
            }
        }
        _ => {}
    }
    v
}

#[allow(clippy::too_many_arguments)]
pub fn minimise_and_write(bin: &str, case: &mut Case, viol: &Violation, prop: &str, label: &str, seed: u64, idx: u64, path: &str, tmp: &str) -> Result<(), String> {
    let class = viol.class.clone();
    let t0 = Instant::now();
    let mut evals = 0u32;
    let budget_evals = 260u32;
    let budget_time = Duration::from_secs(120);
    let from = serde_json::json!({"threads": case.threads.len(), "ops": case.op_count(), "insts": case.insts.len()});
    if case.free_run {
        // unscheduled fallback run: no schedule to pin or shrink; confirm in fresh processes (a few tries, the OS decides
        // the interleaving) and write the case as it is
        for _ in 0..6 {
            let r = run_child(bin, case, tmp, 120);
            if let Some(d) = has_class(prop, &r, &class) {
                let rf = ReplayFile {
                    property: prop.to_string(),
                    engine: "native-free-run".into(),
                    flavour: label.to_string(),
                    verif_seed: seed,
                    run_index: idx,
                    violation: Violation { class: class.clone(), detail: d, thread: viol.thread, op: viol.op },
                    minimised_from: from.clone(),
                    minimised_to: serde_json::json!({"note": "not minimised: free-running fallback (the simulated schedule stalled on a lock inside the code under test)"}),
                    event_log_hash: 0,
                    case: case.clone(),
                    nondeterministic: true,
                };
                std::fs::write(path, serde_json::to_string_pretty(&rf).unwrap()).map_err(|e| e.to_string())?;
                return Ok(());
            }
        }
        return Err(format!("class {} not shown by six free-running re-runs", class));
    }
    let first = run_child(bin, case, tmp, 120);
    let Some(detail0) = has_class(prop, &first, &class) else {
        // Not shown by the first fresh process. Either the harness is at fault, or the code under test consults a source
        // the simulator does not own (per-process hash keys, addresses): a few more fresh processes decide. If some of them
        // show the class, the violation is real but not a pure function of the seed; it is reported unminimised and marked.
        let mut shown = 0;
        let mut detail = String::new();
        for _ in 0..8 {
            let r = run_child(bin, case, tmp, 120);
            if let Some(d) = has_class(prop, &r, &class) {
                shown += 1;
                detail = d;
            }
        }
        if shown == 0 {
            return Err(format!("class {} not shown by the re-run (got {:?})", class, classes(prop, &first).iter().map(|c| c.0.clone()).collect::<Vec<_>>()));
        }
        let rf = ReplayFile {
            property: prop.to_string(),
            engine: "native".into(),
            flavour: label.to_string(),
            verif_seed: seed,
            run_index: idx,
            violation: Violation { class: class.clone(), detail: format!("[shown by {} of 9 fresh processes: depends on a source of nondeterminism inside the code under test] {}", shown, detail), thread: viol.thread, op: viol.op },
            minimised_from: from.clone(),
            minimised_to: serde_json::json!({"note": "not minimised: the violation is not a pure function of the seed"}),
            event_log_hash: 0,
            case: case.clone(),
            nondeterministic: true,
        };
        std::fs::write(path, serde_json::to_string_pretty(&rf).unwrap()).map_err(|e| e.to_string())?;
        return Ok(());
    };
    let mut detail = detail0;
    let mut log_hash = 0u64;
    let mut from_switches = 0usize;
    // pin the schedule: explicit switch list
    if let ChildRes::Out(o) = &first {
        from_switches = o.sched.trace.len();
        log_hash = o.log_hash;
        let mut pinned = case.clone();
        pinned.policy = Policy::Replay(o.sched.trace.clone());
        let r = run_child(bin, &pinned, tmp, 120);
        evals += 1;
        if has_class(prop, &r, &class).is_some() {
            *case = pinned;
        }
    }
    let mut try_case = |cand: &Case, evals: &mut u32| -> Option<(String, u64)> {
        if *evals >= budget_evals || t0.elapsed() > budget_time {
            return None;
        }
        *evals += 1;
        let r = run_child(bin, cand, tmp, 60);
        let d = has_class(prop, &r, &class)?;
        let lh = if let ChildRes::Out(o) = &r { o.log_hash } else { 0 };
        Some((d, lh))
    };
    let mut progress = true;
    while progress && evals < budget_evals && t0.elapsed() < budget_time {
        progress = false;
        // no schedule at all?
        if !matches!(case.policy, Policy::Seq) {
            let mut c = case.clone();
            c.policy = Policy::Seq;
            if let Some((d, lh)) = try_case(&c, &mut evals) {
                *case = c;
                detail = d;
                log_hash = lh;
                progress = true;
            }
        }
        // drop whole threads
        for t in (0..case.threads.len()).rev() {
            if case.threads[t].is_empty() {
                continue;
            }
            let mut c = case.clone();
            c.threads[t].clear();
            if let Some((d, lh)) = try_case(&c, &mut evals) {
                *case = c;
                detail = d;
                log_hash = lh;
                progress = true;
            }
        }
        // drop single operations
        for t in 0..case.threads.len() {
            let mut i = case.threads[t].len();
            while i > 0 {
                i -= 1;
                let mut c = case.clone();
                c.threads[t].remove(i);
                if let Some((d, lh)) = try_case(&c, &mut evals) {
                    *case = c;
                    detail = d;
                    log_hash = lh;
                    progress = true;
                }
            }
        }
        // simplify arguments
        for t in 0..case.threads.len() {
            for i in 0..case.threads[t].len() {
                for s in simplify_op(&case.threads[t][i]) {
                    let mut c = case.clone();
                    c.threads[t][i] = s;
                    if let Some((d, lh)) = try_case(&c, &mut evals) {
                        *case = c;
                        detail = d;
                        log_hash = lh;
                        progress = true;
                    }
                }
            }
        }
        // smaller instances of the same kind
        for ii in 0..case.insts.len() {
            if let crate::world::Spec::Planned(pk, len) = case.insts[ii].spec.clone() {
                for cand in [1usize, 2, 3, 4, 5, 6, 7, 8, 9, 10, 11, 12, 13, 16, 17, 24, 31, 32, 37, 59, 64, 97, 128, 243, 256, 1024] {
                    if cand >= len {
                        break;
                    }
                    let mut c = case.clone();
                    c.insts[ii].spec = crate::world::Spec::Planned(pk, cand);
                    if let Some((d, lh)) = try_case(&c, &mut evals) {
                        *case = c;
                        detail = d;
                        log_hash = lh;
                        progress = true;
                        break;
                    }
                }
            }
        }
        if case.twin {
            let mut c = case.clone();
            c.twin = false;
            if let Some((d, lh)) = try_case(&c, &mut evals) {
                *case = c;
                detail = d;
                log_hash = lh;
                progress = true;
            }
        }
        // ddmin over the switch list
        if let Policy::Replay(list) = case.policy.clone() {
            let mut list = list;
            let mut chunk = (list.len() / 2).max(1);
            while chunk >= 1 && !list.is_empty() {
                let mut i = 0;
                let mut removed_any = false;
                while i < list.len() {
                    let mut l2 = list.clone();
                    let end = (i + chunk).min(l2.len());
                    l2.drain(i..end);
                    let mut c = case.clone();
                    c.policy = Policy::Replay(l2.clone());
                    if let Some((d, lh)) = try_case(&c, &mut evals) {
                        list = l2;
                        *case = c;
                        detail = d;
                        log_hash = lh;
                        removed_any = true;
                        progress = true;
                    } else {
                        i += chunk;
                    }
                    if evals >= budget_evals {
                        break;
                    }
                }
                if chunk == 1 && !removed_any {
                    break;
                }
                chunk = if chunk == 1 { if removed_any { 1 } else { 0 } } else { chunk / 2 };
                if chunk == 0 || evals >= budget_evals {
                    break;
                }
            }
        }
    }
    // final confirmation in a fresh process
    let conf = run_child(bin, case, tmp, 120);
    if has_class(prop, &conf, &class).is_none() {
        return Err("minimised case does not reproduce".into());
    }
    // With coroutines all simulated threads share one OS thread and with it every `thread_local!` of the code under test.
    // Before a multi-thread violation is reported, the same case with the same pinned schedule must show it with one OS
    // thread per simulated thread; otherwise it is an artefact of the shared thread-locals and is dropped (and counted).
    if crate::sched::use_coroutines() && case.threads.iter().filter(|t| !t.is_empty()).count() > 1 {
        let conf2 = run_child_backend(bin, case, tmp, 300, true);
        if has_class(prop, &conf2, &class).is_none() {
            return Err(format!("ARTEFACT: class {} shows with coroutines (simulated threads sharing one OS thread and its thread-locals) but not with one OS thread per simulated thread under the same schedule", class));
        }
    }
    let switches = if let Policy::Replay(l) = &case.policy { l.len() } else { 0 };
    let rf = ReplayFile {
        property: prop.to_string(),
        engine: "native".into(),
        flavour: label.to_string(),
        verif_seed: seed,
        run_index: idx,
        violation: Violation { class, detail, thread: viol.thread, op: viol.op },
        minimised_from: serde_json::json!({"shape": from, "switches": from_switches}),
        minimised_to: serde_json::json!({"threads": case.threads.iter().filter(|t| !t.is_empty()).count(), "ops": case.op_count(), "switches": switches, "child_runs": evals}),
        event_log_hash: log_hash,
        case: case.clone(),
        nondeterministic: false,
    };
    std::fs::write(path, serde_json::to_string_pretty(&rf).unwrap()).map_err(|e| e.to_string())?;
    Ok(())
}

/// `rfsim replay <file>`: exit 1 (and a REPRODUCED line) when the recorded violation class shows again.
pub fn replay(path: &str) -> i32 {
    let text = match std::fs::read_to_string(path) {
        Ok(t) => t,
        Err(e) => {
            eprintln!("rfsim: cannot read {}: {}", path, e);
            return 2;
        }
    };
    let rf: ReplayFile = match serde_json::from_str(&text) {
        Ok(r) => r,
        Err(e) => {
            eprintln!("rfsim: cannot parse {}: {}", path, e);
            return 2;
        }
    };
    let me = std::env::current_exe().unwrap().to_string_lossy().to_string();
    let tmp = format!("{}/target/tmp/replay-{}", crate::home(), std::process::id());
    let mut r = run_child(&me, &rf.case, &tmp, 600);
    if rf.case.free_run || rf.nondeterministic {
        // the OS decides the interleaving of a free-running fallback case, and a case marked nondeterministic depends on
        // per-process state inside the code under test: a few tries
        for _ in 0..15 {
            if classes(&rf.property, &r).iter().any(|(c, _)| *c == rf.violation.class) {
                break;
            }
            r = run_child(&me, &rf.case, &tmp, 600);
        }
    }
    let _ = std::fs::remove_dir_all(&tmp);
    let cl = classes(&rf.property, &r);
    let lh = if let ChildRes::Out(o) = &r { o.log_hash } else { 0 };
    if let Some((c, d)) = cl.iter().find(|(c, _)| *c == rf.violation.class) {
        println!("REPRODUCED property={} class={} event_log_hash={:#x} (recorded {:#x}) detail={}", rf.property, c, lh, rf.event_log_hash, d);
        println!("VIOLATION property={} replay={}", rf.property, path);
        1
    } else {
        println!("NOT-REPRODUCED property={} recorded class={} now shows {:?}", rf.property, rf.violation.class, cl.iter().map(|c| c.0.clone()).collect::<Vec<_>>());
        0
    }
}
