//! Reference models: an independent DFT (exactly reduced twiddle index, octant-reduced f64 sin/cos,
//! double-double accumulation), the error bound B(n) the properties state, the shape model (C09) and
//! the host model (C13).

use crate::elem::Elem;
use num_complex::Complex;

pub type C64 = (f64, f64);

/// exp(-2*pi*i*idx/n) for forward, exp(+2*pi*i*idx/n) for inverse; idx is reduced mod n in integers.
pub fn twiddle(n: usize, idx: usize, inverse: bool) -> C64 {
    let n_ = n as u128;
    let idx = (idx as u128) % n_;
    let a = idx * 8;
    let oct = (a / n_) as u32; // 0..7
    // distance to the nearest multiple of 1/8 turn on the appropriate side, as a fraction num/(8n) of a turn
    let num = if oct % 2 == 0 {
        a - oct as u128 * n_
    } else {
        (oct as u128 + 1) * n_ - a
    };
    let theta = std::f64::consts::FRAC_PI_4 * (num as f64 / n as f64);
    let (s, c) = theta.sin_cos();
    let (co, si) = match oct {
        0 => (c, s),
        1 => (s, c),
        2 => (-s, c),
        3 => (-c, s),
        4 => (-c, -s),
        5 => (-s, -c),
        6 => (s, -c),
        _ => (c, -s),
    };
    if inverse {
        (co, si)
    } else {
        (co, -si)
    }
}

#[inline]
fn two_sum(a: f64, b: f64) -> (f64, f64) {
    let s = a + b;
    let bb = s - a;
    let e = (a - (s - bb)) + (b - bb);
    (s, e)
}
#[inline]
fn two_prod(a: f64, b: f64) -> (f64, f64) {
    let p = a * b;
    let e = a.mul_add(b, -p);
    (p, e)
}

/// double-double accumulator
#[derive(Clone, Copy, Default)]
pub struct DD {
    hi: f64,
    lo: f64,
}
impl DD {
    #[inline]
    pub fn add_prod(&mut self, a: f64, b: f64) {
        let (p, pe) = two_prod(a, b);
        let (s, se) = two_sum(self.hi, p);
        self.hi = s;
        self.lo += se + pe;
    }
    #[inline]
    pub fn get(&self) -> f64 {
        self.hi + self.lo
    }
}

pub fn twiddle_table(n: usize, inverse: bool) -> Vec<C64> {
    (0..n).map(|i| twiddle(n, i, inverse)).collect()
}

/// One output bin of the exact DFT of x, O(n).
pub fn ref_bin(tw: &[C64], x: &[C64], k: usize) -> C64 {
    let n = x.len();
    let mut re = DD::default();
    let mut im = DD::default();
    let mut idx = 0usize;
    for &(xr, xi) in x {
        let (wr, wi) = tw[idx];
        re.add_prod(xr, wr);
        re.add_prod(-xi, wi);
        im.add_prod(xr, wi);
        im.add_prod(xi, wr);
        idx += k;
        if idx >= n {
            idx -= n;
        }
    }
    (re.get(), im.get())
}

pub fn ref_dense(n: usize, inverse: bool, x: &[C64]) -> Vec<C64> {
    let tw = twiddle_table(n, inverse);
    (0..n).map(|k| ref_bin(&tw, x, k)).collect()
}

/// Exact DFT of a sparse vector given by its non-zero entries, O(n * nz).
pub fn ref_sparse(n: usize, inverse: bool, nz: &[(usize, C64)]) -> Vec<C64> {
    let mut out = Vec::with_capacity(n);
    for k in 0..n {
        let mut re = DD::default();
        let mut im = DD::default();
        for &(j, (xr, xi)) in nz {
            let (wr, wi) = twiddle(n, ((j as u128 * k as u128) % n as u128) as usize, inverse);
            re.add_prod(xr, wr);
            re.add_prod(-xi, wi);
            im.add_prod(xr, wi);
            im.add_prod(xi, wr);
        }
        out.push((re.get(), im.get()));
    }
    out
}

/// The bound the properties state for the relative L2 error: 16 * eps * log2(2n).
pub fn bound<T: Elem>(n: usize) -> f64 {
    16.0 * T::EPS * ((2 * n.max(1)) as f64).log2()
}

pub fn l2<T: Elem>(x: &[Complex<T>]) -> f64 {
    x.iter()
        .map(|c| {
            let (r, i) = (c.re.val(), c.im.val());
            r * r + i * i
        })
        .sum::<f64>()
        .sqrt()
}
pub fn l2_ref(x: &[C64]) -> f64 {
    x.iter().map(|&(r, i)| r * r + i * i).sum::<f64>().sqrt()
}

/// ||out - reference||_2
pub fn l2_dist<T: Elem>(out: &[Complex<T>], reference: &[C64]) -> f64 {
    out.iter()
        .zip(reference)
        .map(|(c, &(r, i))| {
            let (dr, di) = (c.re.val() - r, c.im.val() - i);
            dr * dr + di * di
        })
        .sum::<f64>()
        .sqrt()
}

pub fn to_c64<T: Elem>(x: &[Complex<T>]) -> Vec<C64> {
    x.iter().map(|c| (c.re.val(), c.im.val())).collect()
}

/// C09 shape model: is this call well-shaped?
pub fn well_shaped(n: usize, in_len: usize, out_len: Option<usize>, scratch: usize, advertised: usize) -> bool {
    n > 0
        && in_len > 0
        && in_len % n == 0
        && out_len.map_or(true, |o| o == in_len)
        && scratch >= advertised
}

/// Simulated host capability levels (C13). Bits as in rustfft::verif_hooks::CPU_*.
pub const HOSTS: [(&str, u32); 5] = [
    ("none", 0),
    ("sse4.1", 1),
    ("avx-nofma", 1 | 2),
    ("avx+fma", 1 | 2 | 4),
    ("avx2+fma", 1 | 2 | 4 | 8),
];

#[cfg(test)]
mod tests {
    use super::*;
    #[test]
    fn twiddle_matches_naive() {
        for n in [1usize, 2, 3, 7, 8, 12, 1000, 4097] {
            for idx in 0..n.min(64) {
                let (c, s) = twiddle(n, idx, false);
                let a = -2.0 * std::f64::consts::PI * idx as f64 / n as f64;
                assert!((c - a.cos()).abs() < 1e-14 && (s - a.sin()).abs() < 1e-14);
            }
        }
    }
}
