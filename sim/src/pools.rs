//! Structured length pools (DESIGN Appendix B): not uniform, but aimed at the code paths of each planner.

use crate::prng::Rng;
use crate::world::{gcd, is_prime, Spec, BUTTERFLIES, PK};

fn smooth_upto(nmax: usize, primes: &[usize]) -> Vec<usize> {
    let mut v = vec![1usize];
    for &p in primes {
        let mut add = Vec::new();
        for &x in &v {
            let mut y = x * p;
            while y <= nmax {
                add.push(y);
                y *= p;
            }
        }
        v.extend(add);
    }
    v.sort();
    v.dedup();
    v
}

fn largest_prime_factor(mut n: usize) -> usize {
    let mut best = 1;
    let mut p = 2;
    while p * p <= n {
        while n % p == 0 {
            best = p;
            n /= p;
        }
        p += 1;
    }
    if n > 1 {
        best = n;
    }
    best
}

pub struct Pools {
    pub nmax: usize,
    pub bfly: Vec<usize>,
    pub pow: Vec<usize>,
    pub smooth: Vec<usize>,
    pub rader: Vec<usize>,
    pub blue: Vec<usize>,
    pub semi: Vec<usize>,
    pub avxrem: Vec<usize>,
    pub lattice: Vec<usize>,
}

impl Pools {
    pub fn new(nmax: usize) -> Pools {
        let nmax = nmax.max(64);
        let mut bfly: Vec<usize> = Vec::new();
        let all_b: Vec<usize> = {
            let mut b = BUTTERFLIES.to_vec();
            b.extend([10, 15, 36, 48, 54, 64, 72, 128, 256, 512, 18]);
            b
        };
        for &a in &all_b {
            bfly.push(a);
            for &b in &all_b {
                if a * b <= 1024.min(nmax) {
                    bfly.push(a * b);
                }
            }
        }
        bfly.sort();
        bfly.dedup();
        bfly.retain(|&x| x <= nmax);

        let mut pow = smooth_upto(nmax, &[2, 3]);
        pow.retain(|&x| x >= 2);
        let mut smooth = smooth_upto(nmax, &[2, 3, 5, 7, 11]);
        smooth.retain(|&x| x >= 10);
        // thin the smooth pool (it is large): keep every value with an "interesting" factor mix
        if smooth.len() > 600 {
            let step = smooth.len() / 600 + 1;
            smooth = smooth.into_iter().enumerate().filter(|(i, _)| i % step == 0).map(|(_, x)| x).collect();
        }
        let mut rader = Vec::new();
        let mut blue = Vec::new();
        let mut p = 37;
        while p <= nmax {
            if is_prime(p) {
                if largest_prime_factor(p - 1) <= 11 {
                    rader.push(p);
                } else if largest_prime_factor(p - 1) > 23 {
                    blue.push(p);
                }
            }
            p += 2;
        }
        let thin = |v: Vec<usize>, m: usize| -> Vec<usize> {
            if v.len() <= m {
                return v;
            }
            let step = v.len() as f64 / m as f64;
            (0..m).map(|i| v[(i as f64 * step) as usize]).collect()
        };
        let rader = thin(rader, 120);
        let blue = thin(blue, 120);
        let small_primes = [37usize, 41, 43, 47, 53, 59, 61, 67, 71, 73, 79, 83, 89, 97, 101, 127, 131, 149, 167, 179, 257, 359];
        let mut semi = Vec::new();
        for &a in &small_primes {
            for &b in &small_primes {
                if a <= b && a * b <= nmax {
                    semi.push(a * b);
                }
            }
            let mut m = 2;
            while a * m <= nmax {
                semi.push(a * m);
                m *= 2;
            }
            for m in [3usize, 5, 6, 7, 9, 11, 12] {
                if a * m <= nmax {
                    semi.push(a * m);
                }
            }
        }
        semi.sort();
        semi.dedup();
        // every residue of the row length modulo the vector width for each AVX radix
        let mut avxrem = Vec::new();
        for r in [2usize, 3, 4, 5, 6, 7, 8, 9, 11, 12, 16] {
            for m in [5usize, 6, 7, 8, 9, 10, 11, 13, 14, 15, 17, 18, 21, 22, 23, 25, 26, 27, 30, 33, 35, 45, 49, 55, 63, 65, 75, 77, 81, 99, 121, 125] {
                if r * m <= nmax {
                    avxrem.push(r * m);
                }
            }
        }
        avxrem.sort();
        avxrem.dedup();
        // divisor lattice of a highly composite number times small/large primes
        let h = 2usize.pow(7) * 27 * 5 * 7;
        let mut lattice = Vec::new();
        for d in 1..=h.min(nmax) {
            if h % d == 0 {
                for p in [1usize, 11, 13, 59, 127] {
                    if d * p <= nmax && d * p >= 2 {
                        lattice.push(d * p);
                    }
                }
            }
        }
        lattice.sort();
        lattice.dedup();
        Pools { nmax, bfly, pow, smooth, rader, blue, semi, avxrem, lattice }
    }

    /// A length drawn from the structured pools.
    pub fn pick(&self, rng: &mut Rng) -> usize {
        let which = rng.below(100);
        let from = |rng: &mut Rng, v: &Vec<usize>| -> usize {
            if v.is_empty() {
                2
            } else {
                *rng.pick(v)
            }
        };
        match which {
            0..=17 => rng.below(65.min(self.nmax as u64 + 1)) as usize, // every n <= 64 (including 0 and 1)
            18..=29 => from(rng, &self.bfly),
            30..=41 => from(rng, &self.pow),
            42..=51 => from(rng, &self.smooth),
            52..=59 => from(rng, &self.rader),
            60..=67 => from(rng, &self.blue),
            68..=77 => from(rng, &self.semi),
            78..=89 => from(rng, &self.avxrem),
            90..=95 => from(rng, &self.lattice),
            _ => 1 + rng.below(self.nmax as u64) as usize,
        }
    }
    pub fn pick_pos(&self, rng: &mut Rng) -> usize {
        loop {
            let n = self.pick(rng);
            if n > 0 {
                return n;
            }
        }
    }
    /// Lengths that occur as *inner* lengths of one another's plans: a prime p with the Rader inner length p-1, the
    /// Bluestein inner lengths (next power of two and 3*2^k above 2p-1), small multiples of p and the halves of p-1 — so
    /// that a request for one finds the other already in the planner's cache (history-dependent plans).
    pub fn family(&self, rng: &mut Rng) -> Vec<usize> {
        let p = loop {
            let c = match rng.below(3) {
                0 if !self.rader.is_empty() => *rng.pick(&self.rader),
                1 if !self.blue.is_empty() => *rng.pick(&self.blue),
                _ => *rng.pick(&[37usize, 41, 43, 47, 53, 59, 61, 67, 71, 73, 79, 83, 89, 97, 101, 127, 131, 149, 163, 167, 179, 193, 257, 359, 499, 643, 997]),
            };
            if c <= self.nmax {
                break c;
            }
        };
        let m = 2 * p - 1;
        let mut v = vec![p - 1, p, 2 * p, 3 * p, 4 * p, (p - 1) / 2, 2 * (p - 1), m.next_power_of_two(), 3 * (m.div_ceil(3)).next_power_of_two()];
        v.retain(|&x| x >= 2 && x <= self.nmax);
        // the prime itself and its Rader inner length are always present and come first
        v
    }
    /// A run of 3-6 neighbouring primes (each optionally times 2 or 3), mostly in increasing order: successive requests
    /// whose Rader/Bluestein stages need slightly more workspace each time (state a planner might keep between requests
    /// and size by its history).
    pub fn prime_run(&self, rng: &mut Rng) -> Vec<usize> {
        let mut primes: Vec<usize> = (37..=self.nmax.min(4000)).filter(|&p| is_prime(p)).collect();
        if primes.len() < 8 {
            primes = vec![37, 41, 43, 47, 53, 59, 61, 67];
        }
        // short runs near the bottom are as interesting as anywhere else: draw the start with a bias to small primes
        let span = primes.len() - 6;
        let start = (rng.below(span as u64) as usize).min(rng.below(span as u64) as usize);
        let m = 3 + rng.below(4) as usize;
        let stride = 1 + rng.below(3) as usize;
        let mut v: Vec<usize> = (0..m).map(|i| primes[(start + i * stride).min(primes.len() - 1)]).collect();
        if rng.chance(0.3) {
            for x in v.iter_mut() {
                *x *= *rng.pick(&[1usize, 2, 3]);
            }
        }
        v.retain(|&x| x <= self.nmax);
        match rng.below(20) {
            0..=11 => {}
            12..=14 => v.reverse(),
            _ => rng.shuffle(&mut v),
        }
        v
    }
    pub fn pick_chain(&self, rng: &mut Rng) -> usize {
        if rng.chance(0.7) && !self.lattice.is_empty() {
            *rng.pick(&self.lattice)
        } else {
            self.pick_pos(rng)
        }
    }
}

fn leaf_of_len(rng: &mut Rng, len: usize, pks: &[PK]) -> Spec {
    let mut opts: Vec<Spec> = vec![Spec::Planned(*rng.pick(pks), len)];
    if BUTTERFLIES.contains(&len) {
        opts.push(Spec::Butterfly(len));
    }
    if len <= 16 && len >= 1 {
        opts.push(Spec::Dft(len));
    }
    if len.is_power_of_two() {
        opts.push(Spec::Radix4(len));
    }
    if len >= 1 && 3usize.pow((len as f64).log(3.0).round() as u32) == len {
        opts.push(Spec::Radix3(len));
    }
    rng.pick(&opts).clone()
}

/// A transform assembled from the public algorithm constructors within their documented preconditions.
pub fn ctor_tree(rng: &mut Rng, depth: u32, nmax: usize, pks: &[PK]) -> Spec {
    let leaf = |rng: &mut Rng| -> Spec {
        match rng.below(10) {
            0..=4 => Spec::Butterfly(*rng.pick(&BUTTERFLIES)),
            5 => Spec::Dft(1 + rng.below(16) as usize),
            // every number of radix layers the length limit allows (a defect may sit at one particular depth)
            6 => Spec::Radix4(1 << rng.below(1 + (nmax.max(2).ilog2() as u64).min(16))),
            7 => Spec::Radix3(3usize.pow(rng.below(1 + (nmax.max(3).ilog(3) as u64).min(10)) as u32)),
            _ => Spec::Planned(*rng.pick(pks), 1 + rng.below(96) as usize),
        }
    };
    if depth == 0 {
        return leaf(rng);
    }
    for _ in 0..8 {
        let cand = match rng.below(12) {
            0 | 1 => {
                let (a, b) = (ctor_tree(rng, depth - 1, nmax, pks), ctor_tree(rng, depth - 1, nmax, pks));
                Spec::MixedRadix(Box::new(a), Box::new(b))
            }
            2 => {
                let (a, b) = (ctor_tree(rng, 0, nmax, pks), ctor_tree(rng, 0, nmax, pks));
                Spec::MixedRadixSmall(Box::new(a), Box::new(b))
            }
            3 | 4 => {
                let (a, b) = (ctor_tree(rng, depth - 1, nmax, pks), ctor_tree(rng, depth - 1, nmax, pks));
                if gcd(a.len(), b.len()) != 1 {
                    continue;
                }
                Spec::GoodThomas(Box::new(a), Box::new(b))
            }
            5 => {
                let (a, b) = (ctor_tree(rng, 0, nmax, pks), ctor_tree(rng, 0, nmax, pks));
                if gcd(a.len(), b.len()) != 1 {
                    continue;
                }
                Spec::GoodThomasSmall(Box::new(a), Box::new(b))
            }
            6 | 7 => {
                // Rader: inner length + 1 must be prime
                let primes = [3usize, 5, 7, 11, 13, 17, 19, 23, 29, 31, 37, 41, 43, 53, 59, 61, 73, 97, 101, 109, 113, 127, 151, 163, 181, 193, 211, 241, 257, 271, 337, 401, 433, 487, 541, 577, 601, 641, 769, 1009, 1153];
                let p = *rng.pick(&primes);
                let inner = if depth > 1 && rng.chance(0.3) {
                    // composite inner of exactly p-1: mixed radix of two leaves when p-1 factors nicely
                    let l = p - 1;
                    let mut found = None;
                    for &a in BUTTERFLIES.iter().rev() {
                        if a > 1 && l % a == 0 && l / a >= 1 {
                            found = Some(Spec::MixedRadix(Box::new(Spec::Butterfly(a)), Box::new(leaf_of_len(rng, l / a, pks))));
                            break;
                        }
                    }
                    found.unwrap_or_else(|| leaf_of_len(rng, l, pks))
                } else {
                    leaf_of_len(rng, p - 1, pks)
                };
                Spec::Raders(Box::new(inner))
            }
            8 | 9 => {
                let n = 1 + rng.below(400.min(nmax as u64 / 4).max(2)) as usize;
                let m = (2 * n - 1) + rng.below(2 * n as u64) as usize;
                let inner = if rng.chance(0.5) { leaf_of_len(rng, m.next_power_of_two(), pks) } else { leaf_of_len(rng, m, pks) };
                Spec::Bluestein(n, Box::new(inner))
            }
            10 => {
                // small bases half of the time, so that deep radix stacks fit under the length limit
                let base = if rng.chance(0.5) { leaf(rng) } else { ctor_tree(rng, depth - 1, nmax, pks) };
                let kmax = ((nmax / base.len().max(1)).max(1).ilog2() / 2) as u64;
                Spec::Radix4Base(rng.below(kmax.min(7) + 1) as u32, Box::new(base))
            }
            _ => {
                let base = if rng.chance(0.5) { leaf(rng) } else { ctor_tree(rng, depth - 1, nmax, pks) };
                let kmax = (nmax / base.len().max(1)).max(1).ilog(3) as u64;
                Spec::Radix3Base(rng.below(kmax.min(9) + 1) as u32, Box::new(base))
            }
        };
        if cand.len() <= nmax && cand.len() >= 1 {
            return cand;
        }
    }
    leaf(rng)
}

/// fault `ctor.precondition`: a construction through the public safe API that violates one documented precondition.
pub fn ill_ctor(rng: &mut Rng, pks: &[PK]) -> Spec {
    use crate::world::IllCtor;
    let small_leaf = |rng: &mut Rng| -> Spec {
        match rng.below(4) {
            0 | 1 => Spec::Butterfly(*rng.pick(&BUTTERFLIES[1..])),
            2 => Spec::Dft(2 + rng.below(12) as usize),
            _ => Spec::Planned(*rng.pick(pks), 2 + rng.below(70) as usize),
        }
    };
    let bx = Box::new;
    Spec::Ill(match rng.below(9) {
        0 | 1 => IllCtor::Dirs(rng.below(4) as u8, bx(small_leaf(rng)), bx(small_leaf(rng))),
        2 | 3 => {
            // a common factor: both lengths are multiples of g
            let g = *rng.pick(&[2usize, 3, 4, 5]);
            let pick_mult = |rng: &mut Rng| -> Spec {
                let cands: Vec<usize> = BUTTERFLIES.iter().copied().filter(|b| b % g == 0).collect();
                if rng.chance(0.6) && !cands.is_empty() {
                    Spec::Butterfly(*rng.pick(&cands))
                } else {
                    Spec::Planned(*rng.pick(pks), g * (1 + rng.below(12) as usize))
                }
            };
            IllCtor::NotCoprime(rng.chance(0.5), bx(pick_mult(rng)), bx(pick_mult(rng)))
        }
        4 => {
            // inner transforms with scratch needs: Bluestein/Rader-planned primes, MixedRadix
            let needy = |rng: &mut Rng| -> Spec {
                match rng.below(3) {
                    0 => Spec::Planned(PK::Scalar, *rng.pick(&[37usize, 59, 83, 74, 111])),
                    1 => Spec::MixedRadix(Box::new(Spec::Butterfly(5)), Box::new(Spec::Butterfly(7))),
                    _ => Spec::Bluestein(10, Box::new(Spec::Radix4(32))),
                }
            };
            if rng.chance(0.5) {
                IllCtor::SmallScratch(rng.chance(0.5), bx(needy(rng)), bx(small_leaf(rng)))
            } else {
                IllCtor::SmallScratch(rng.chance(0.5), bx(small_leaf(rng)), bx(needy(rng)))
            }
        }
        5 => {
            // inner.len() + 1 composite
            let l = *rng.pick(&[3usize, 5, 7, 8, 9, 11, 13, 15, 17, 19, 23, 24, 27, 31, 32, 64, 48, 90]);
            IllCtor::RadersNotPrime(bx(leaf_of_len(rng, l, pks)))
        }
        6 => {
            let n = 2 + rng.below(120) as usize;
            let m = match rng.below(4) {
                0 => 2 * n - 2,
                1 => n,
                2 => 1 + rng.below(n as u64) as usize,
                _ => n + rng.below(n as u64 - 1) as usize,
            };
            IllCtor::BluesteinShort(n, bx(leaf_of_len(rng, m.max(1), pks)))
        }
        7 => IllCtor::Radix4Len(*rng.pick(&[0usize, 3, 6, 12, 24, 48, 96, 100, 255, 1000])),
        _ => IllCtor::Radix3Len(*rng.pick(&[0usize, 2, 6, 12, 18, 28, 80, 100, 242])),
    })
}

/// Systematic small constructor nests (C12): every two-level nest over a small alphabet of leaves, so that coincidences
/// between an outer algorithm's scratch arithmetic and its inner transforms' advertised needs (which random nests hit
/// with probability ~1/n) are enumerated instead of hoped for.
pub fn small_level1() -> Vec<Spec> {
    let bx = Box::new;
    let mut leaves: Vec<Spec> = [2usize, 3, 4, 5, 7, 8, 16].iter().map(|&n| Spec::Butterfly(n)).collect();
    leaves.extend([1usize, 2, 3, 4, 5, 6, 7].iter().map(|&n| Spec::Dft(n)));
    leaves.push(Spec::Radix4(4));
    leaves.push(Spec::Planned(PK::Scalar, 6));
    let mut v = leaves.clone();
    for n in 1..=5usize {
        for l in &leaves {
            if l.len() >= 2 * n - 1 && l.len() <= 2 * n + 3 {
                v.push(Spec::Bluestein(n, bx(l.clone())));
            }
        }
    }
    for l in &leaves {
        if is_prime(l.len() + 1) {
            v.push(Spec::Raders(bx(l.clone())));
        }
        if l.len() <= 5 {
            v.push(Spec::Radix4Base(1, bx(l.clone())));
            v.push(Spec::Radix3Base(1, bx(l.clone())));
        }
    }
    v
}

pub fn systematic_nests() -> &'static Vec<Spec> {
    static N: std::sync::OnceLock<Vec<Spec>> = std::sync::OnceLock::new();
    N.get_or_init(|| {
        let bx = Box::new;
        let s1 = small_level1();
        let mut v = Vec::new();
        for a in &s1 {
            for b in &s1 {
                if a.len() * b.len() > 600 {
                    continue;
                }
                v.push(Spec::MixedRadix(bx(a.clone()), bx(b.clone())));
                v.push(Spec::MixedRadixSmall(bx(a.clone()), bx(b.clone())));
                if gcd(a.len(), b.len()) == 1 {
                    v.push(Spec::GoodThomas(bx(a.clone()), bx(b.clone())));
                    v.push(Spec::GoodThomasSmall(bx(a.clone()), bx(b.clone())));
                }
            }
            if a.is_planned() || matches!(a, Spec::Butterfly(_) | Spec::Dft(_) | Spec::Radix4(_)) {
                continue; // unary constructors over leaves are level 1 already
            }
            for n in 1..=(a.len() + 1) / 2 {
                if 2 * n - 1 <= a.len() && a.len() <= 2 * n + 2 {
                    v.push(Spec::Bluestein(n, bx(a.clone())));
                }
            }
            if is_prime(a.len() + 1) {
                v.push(Spec::Raders(bx(a.clone())));
            }
            if a.len() <= 40 {
                v.push(Spec::Radix4Base(1, bx(a.clone())));
                v.push(Spec::Radix3Base(1, bx(a.clone())));
                v.push(Spec::Radix4Base(0, bx(a.clone())));
            }
        }
        // every depth of the radix stacks over the smallest bases
        for base in [Spec::Dft(1), Spec::Butterfly(2), Spec::Dft(2), Spec::Butterfly(3), Spec::Dft(3), Spec::Butterfly(5), Spec::Butterfly(7)] {
            for k in 2..=6u32 {
                if base.len() * 3usize.pow(k) <= 5200 {
                    v.push(Spec::Radix3Base(k, bx(base.clone())));
                }
                if k <= 5 && (base.len() << (2 * k)) <= 5200 {
                    v.push(Spec::Radix4Base(k, bx(base.clone())));
                }
            }
        }
        v
    })
}
