//! The only source of randomness in the simulator: SplitMix64 streams derived from VERIF_SEED.
//! Logging paths never draw from a `Rng`.

#[derive(Clone, Debug)]
pub struct Rng(pub u64);

pub fn mix(a: u64, b: u64) -> u64 {
    let mut r = Rng(a ^ b.wrapping_mul(0x9E37_79B9_7F4A_7C15).rotate_left(17));
    r.next();
    r.next()
}

impl Rng {
    pub fn new(seed: u64) -> Self {
        Rng(seed)
    }
    /// Independent sub-stream: drawing from the child never perturbs the parent.
    pub fn fork(&mut self, tag: u64) -> Rng {
        Rng(mix(self.next(), tag))
    }
    pub fn next(&mut self) -> u64 {
        self.0 = self.0.wrapping_add(0x9E37_79B9_7F4A_7C15);
        let mut z = self.0;
        z = (z ^ (z >> 30)).wrapping_mul(0xBF58_476D_1CE4_E5B9);
        z = (z ^ (z >> 27)).wrapping_mul(0x94D0_49BB_1331_11EB);
        z ^ (z >> 31)
    }
    /// uniform in 0..n (n > 0)
    pub fn below(&mut self, n: u64) -> u64 {
        debug_assert!(n > 0);
        // multiply-shift; the bias is irrelevant here, exact repeatability is what matters
        ((self.next() as u128 * n as u128) >> 64) as u64
    }
    pub fn range(&mut self, lo: usize, hi_incl: usize) -> usize {
        lo + self.below((hi_incl - lo + 1) as u64) as usize
    }
    pub fn unit(&mut self) -> f64 {
        (self.next() >> 11) as f64 / (1u64 << 53) as f64
    }
    pub fn chance(&mut self, p: f64) -> bool {
        self.unit() < p
    }
    pub fn pick<'a, T>(&mut self, xs: &'a [T]) -> &'a T {
        &xs[self.below(xs.len() as u64) as usize]
    }
    pub fn shuffle<T>(&mut self, xs: &mut [T]) {
        for i in (1..xs.len()).rev() {
            let j = self.below(i as u64 + 1) as usize;
            xs.swap(i, j);
        }
    }
}

/// FNV-style 64-bit running hash used for event logs and output fingerprints.
#[derive(Clone, Copy, Debug)]
pub struct Hasher64(pub u64);
impl Default for Hasher64 {
    fn default() -> Self {
        Hasher64(0xcbf2_9ce4_8422_2325)
    }
}
impl Hasher64 {
    #[inline]
    pub fn add(&mut self, v: u64) {
        let mut h = self.0 ^ v;
        h = h.wrapping_mul(0x0000_0100_0000_01B3);
        h ^= h >> 29;
        h = h.wrapping_mul(0x9E37_79B9_7F4A_7C15);
        h ^= h >> 32;
        self.0 = h;
    }
    pub fn add_str(&mut self, s: &str) {
        for b in s.bytes() {
            self.add(b as u64);
        }
        self.add(0xff);
    }
    pub fn get(&self) -> u64 {
        self.0
    }
}
