//! A simulated run as data: the world description and the explicit per-thread operation lists.
//! Programs are generated up front from the run seed (never during execution), so that replay and
//! minimisation operate on data.

use crate::arena::Place;
use crate::sched::Policy;
use crate::world::{Dir, Spec, PK};
use serde::{Deserialize, Serialize};

#[derive(Clone, Copy, Debug, PartialEq, Eq, Hash, Serialize, Deserialize)]
pub enum ElemKind {
    F32,
    F64,
    Fx,
}

#[derive(Clone, Copy, Debug, PartialEq, Eq, Hash, Serialize, Deserialize)]
pub enum Entry {
    /// `process` (allocates its own scratch)
    Process,
    /// `process_with_scratch`
    InPlace,
    /// `process_outofplace_with_scratch`
    OutOfPlace,
    /// `process_immutable_with_scratch`
    Immut,
}
pub const ENTRIES: [Entry; 4] = [Entry::Process, Entry::InPlace, Entry::OutOfPlace, Entry::Immut];
pub const SCRATCH_ENTRIES: [Entry; 3] = [Entry::InPlace, Entry::OutOfPlace, Entry::Immut];

#[derive(Clone, Copy, Debug, PartialEq, Eq, Hash, Serialize, Deserialize)]
pub enum Fill {
    Zero,
    NaN,
    PosInf,
    NegInf,
    Huge,
    /// whatever the previous call on this thread left in its workspace
    Leftover,
}
pub const FILLS: [Fill; 6] = [Fill::Zero, Fill::NaN, Fill::PosInf, Fill::NegInf, Fill::Huge, Fill::Leftover];

#[derive(Clone, Copy, Debug, PartialEq, Eq, Hash, Serialize, Deserialize)]
pub enum InputKind {
    Dense,
    /// this many non-zero entries at seeded positions (complete closed-form reference)
    Sparse(u8),
    /// unit impulse at position (index mod total length)
    Impulse(u32),
    Const,
}

#[derive(Clone, Copy, Debug, PartialEq, Eq, Hash, Serialize, Deserialize)]
pub struct InputSpec {
    pub seed: u64,
    pub kind: InputKind,
}

#[derive(Clone, Copy, Debug, PartialEq, Eq, Hash, Serialize, Deserialize)]
pub enum InstRef {
    /// instance built in the prologue and shared by all threads
    Shared(u16),
    /// instance this thread obtained from a planner during the run
    Local(u16),
}

#[derive(Clone, Copy, Debug, PartialEq, Eq, Hash, Serialize, Deserialize)]
pub enum ShapeFault {
    /// data length = round(k*n) + delta
    Data { k: u8, delta: i32 },
    /// output length = input length + delta
    Out { delta: i64 },
    /// scratch length: 0, or advertised-1
    ScratchZero,
    ScratchMinus1,
    /// input of k chunks, output longer or shorter by whole chunks
    OutChunks { k: u8, dk: i8 },
    /// two faults at once
    DataAndOut { k: u8, delta: i32, odelta: i64 },
    OutAndScratch { delta: i64 },
    /// empty data: with an output of `out_chunks` whole chunks plus `out_extra` elements, and/or scratch one short
    EmptyData { out_chunks: u8, out_extra: u8, short_scratch: bool },
}

#[derive(Clone, Debug, PartialEq, Serialize, Deserialize)]
pub enum Op {
    Call {
        inst: InstRef,
        entry: Entry,
        k: u8,
        input: InputSpec,
        scratch_extra: u32,
        scratch_fill: Fill,
        out_fill: Fill,
        place: Place,
        /// compare with the DFT reference model (C10/C13/C06 sub-oracle)
        dft_ref: bool,
    },
    BadCall {
        inst: InstRef,
        entry: Entry,
        fault: ShapeFault,
        place: Place,
        seed: u64,
    },
    Plan {
        planner: u16,
        len: usize,
        dir: Dir,
        via: bool,
        slot: u16,
    },
    /// plan both directions on one planner in the given order, then compose them both ways
    RoundTrip {
        planner: u16,
        len: usize,
        first: Dir,
        entry: Entry,
        input: InputSpec,
    },
    DropPlanner {
        planner: u16,
    },
    /// C08: the full grid {scratch length} x {scratch fill} x {output fill}
    ScratchGrid {
        inst: InstRef,
        entry: Entry,
        k: u8,
        input: InputSpec,
    },
    /// C09: the full grid of shape faults for one entry point
    ShapeGrid {
        inst: InstRef,
        entry: Entry,
        kmax: u8,
        seed: u64,
    },
    /// Fx only: crash (panic) at the given arithmetic operation of the call
    Crash {
        inst: InstRef,
        entry: Entry,
        k: u8,
        input: InputSpec,
        at: u64,
    },
    /// A self-contained, reference-checked call on a planner-built transform of the *other* float type (f64 in an f32
    /// world and vice versa) on this simulated thread: state that outlives a call and is shared across element types
    /// (thread-locals, statics) only shows up in such mixed histories.
    Foreign {
        pk: crate::world::PK,
        len: usize,
        dir: crate::world::Dir,
        entry: Entry,
        k: u8,
        seed: u64,
        place: crate::arena::Place,
        /// false: the other float type; true: this world's own type (used for "one big call, then small ones" histories)
        #[serde(default)]
        same_type: bool,
    },
    /// One well-shaped call whose buffers reach `target_elems` elements through a large chunk count
    BigBatch {
        inst: InstRef,
        entry: Entry,
        target_elems: u32,
        seed: u64,
        place: crate::arena::Place,
    },
    /// C07: process chunk `chunk` of shared buffer `buf` through this thread's own sub-slice
    SplitChunk {
        inst: InstRef,
        entry: Entry,
        buf: u16,
        chunk: u8,
    },
    /// C07: batched call with every chunk but `keep` poisoned, compared with the benign-neighbour run
    Poison {
        inst: InstRef,
        entry: Entry,
        k: u8,
        keep: u8,
        fill: Fill,
        input: InputSpec,
    },
    /// C15: immutable-input call on shared input buffer `buf` (several threads read the same slice)
    SharedImmut {
        inst: InstRef,
        buf: u16,
    },
    /// C13: call every planner constructor and compare Ok/Err with the host model
    HostCheck,
}

#[derive(Clone, Debug, PartialEq, Serialize, Deserialize)]
pub struct InstDef {
    pub spec: Spec,
    pub dir: Dir,
    /// Some(i): planned by shared planner i in the prologue (planner stays alive); None: built from `spec`
    pub from_planner: Option<u16>,
}

#[derive(Clone, Debug, PartialEq, Serialize, Deserialize)]
pub struct SharedBufDef {
    pub inst: u16,
    pub k: u8,
    pub input: InputSpec,
    pub entry: Entry,
    pub place: Place,
}

#[derive(Clone, Debug, PartialEq, Serialize, Deserialize)]
pub struct Case {
    pub prop: String,
    pub elem: ElemKind,
    /// simulated host: CPU feature mask (bits as rustfft::verif_hooks::CPU_*)
    pub host: u32,
    pub policy: Policy,
    /// seed of the scheduler's PRNG
    pub sched_seed: u64,
    pub planners: Vec<PK>,
    pub insts: Vec<InstDef>,
    pub shared_bufs: Vec<SharedBufDef>,
    pub threads: Vec<Vec<Op>>,
    /// run the twin-planner comparison over the linearised planning history afterwards (C10)
    pub twin: bool,
    /// step budget = budget_factor * calibrated steps (0: no calibration, absolute budget below)
    pub budget: u64,
    /// Fallback for code under test that blocks on a synchronisation primitive the simulator does not own (a real
    /// mutex held across a scheduling point stalls a cooperative scheduler although real threads would merely wait):
    /// run this case with free-running OS threads, unscheduled. Set by the supervisor for stalled cases only.
    #[serde(default)]
    pub free_run: bool,
}

impl Case {
    pub fn op_count(&self) -> usize {
        self.threads.iter().map(|t| t.len()).sum()
    }
}
