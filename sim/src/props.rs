//! Per-property world/program generators. One run index under one VERIF_SEED is one case.

use crate::arena::{Place, PLACES};
use crate::pools::{ctor_tree, ill_ctor, Pools};
use crate::prng::{mix, Rng};
use crate::program::*;
use crate::sched::Policy;
use crate::world::{Dir, Spec, PK, PKS};
use std::sync::OnceLock;

pub const HOST_ALL: u32 = 15;

#[derive(Clone, Copy, Debug, PartialEq)]
pub struct Tier {
    pub thorough: bool,
}

fn pools(nmax: usize) -> &'static Pools {
    static SMALL: OnceLock<Pools> = OnceLock::new();
    static MID: OnceLock<Pools> = OnceLock::new();
    static BIG: OnceLock<Pools> = OnceLock::new();
    static HUGE: OnceLock<Pools> = OnceLock::new();
    if nmax <= 512 {
        SMALL.get_or_init(|| Pools::new(512))
    } else if nmax <= 4096 {
        MID.get_or_init(|| Pools::new(4096))
    } else if nmax <= 1 << 16 {
        BIG.get_or_init(|| Pools::new(1 << 16))
    } else {
        HUGE.get_or_init(|| Pools::new(1 << 20))
    }
}

pub fn prop_tag(prop: &str) -> u64 {
    let mut h = crate::prng::Hasher64::default();
    h.add_str(prop);
    h.get()
}

/// Does a violation class belong to the property under check? C12 is stated in terms of C01, C03, C07, C08 and C09 for
/// constructor-built transforms, so in C12 worlds the oracles of those properties are C12's own.
pub fn owns(prop_lower: &str, class: &str) -> bool {
    if class.starts_with(prop_lower) {
        return true;
    }
    prop_lower == "c12" && ["c03.", "c07.", "c08.", "c09."].iter().any(|p| class.starts_with(p))
}

pub fn run_seed(verif_seed: u64, prop: &str, index: u64) -> u64 {
    mix(mix(verif_seed, prop_tag(prop)), index)
}

fn pick_elem(rng: &mut Rng, fx_pct: u64) -> ElemKind {
    let r = rng.below(100);
    if r < fx_pct {
        ElemKind::Fx
    } else if (r - fx_pct) % 2 == 0 {
        ElemKind::F32
    } else {
        ElemKind::F64
    }
}

fn pks_for(elem: ElemKind) -> &'static [PK] {
    match elem {
        ElemKind::Fx => &[PK::Auto, PK::Scalar],
        _ => &PKS,
    }
}

fn pick_policy(rng: &mut Rng) -> Policy {
    match rng.below(100) {
        0..=7 => Policy::Seq,
        8..=27 => Policy::RoundRobin(*rng.pick(&[1u32, 2, 3, 8, 32])),
        28..=74 => Policy::Rand(*rng.pick(&[0.01, 0.03, 0.1, 0.3, 1.0])),
        _ => Policy::Pct { depth: 1 + rng.below(3) as u32, est_steps: 0 },
    }
}

/// Upper length limit of a world: mostly `small`; `big` in 30 % of thorough runs and in 6 % of quick runs (bulk paths that
/// only exist above a size threshold must not be left to the thorough tier alone).
fn pick_nmax(rng: &mut Rng, tier: Tier, small: usize, big: usize) -> usize {
    if rng.chance(if tier.thorough { 0.3 } else { 0.06 }) {
        big
    } else {
        small
    }
}

fn pick_dir(rng: &mut Rng) -> Dir {
    if rng.chance(0.5) {
        Dir::Fwd
    } else {
        Dir::Inv
    }
}

fn pick_k(rng: &mut Rng, kmax: u64) -> u8 {
    // small chunk counts are most common, but every value up to kmax appears
    let r = rng.below(100);
    (if r < 40 {
        1
    } else if r < 60 {
        2
    } else if r < 75 {
        3
    } else {
        1 + rng.below(kmax)
    }) as u8
}

fn pick_place(rng: &mut Rng) -> Place {
    *rng.pick(&PLACES)
}

fn pick_input(rng: &mut Rng) -> InputSpec {
    let kind = match rng.below(10) {
        0..=5 => InputKind::Dense,
        6 | 7 => InputKind::Sparse(1 + rng.below(4) as u8),
        8 => InputKind::Impulse(rng.below(1 << 20) as u32),
        _ => InputKind::Const,
    };
    InputSpec { seed: rng.next(), kind }
}

fn gen_spec(rng: &mut Rng, nmax: usize, elem: ElemKind, ctor_pct: u64, depth: u32) -> Spec {
    let pks = pks_for(elem);
    if rng.below(100) < ctor_pct {
        let d = 1 + rng.below(depth as u64) as u32;
        ctor_tree(rng, d, nmax, pks)
    } else {
        Spec::Planned(*rng.pick(pks), pools(nmax).pick_pos(rng))
    }
}

fn base_case(prop: &str, elem: ElemKind, rng: &mut Rng) -> Case {
    Case {
        prop: prop.to_string(),
        elem,
        host: HOST_ALL,
        policy: pick_policy(rng),
        sched_seed: rng.next(),
        planners: Vec::new(),
        insts: Vec::new(),
        shared_bufs: Vec::new(),
        threads: Vec::new(),
        twin: false,
        budget: 1 << 40,
        free_run: false,
    }
}

fn good_call(rng: &mut Rng, inst: InstRef, entries: &[Entry], kmax: u64, inputs: &[InputSpec]) -> Op {
    Op::Call {
        inst,
        entry: *rng.pick(entries),
        k: pick_k(rng, kmax),
        input: *rng.pick(inputs),
        scratch_extra: 0,
        scratch_fill: Fill::Zero,
        out_fill: Fill::Zero,
        place: pick_place(rng),
        dft_ref: false,
    }
}

/// history fault `foreign.type`: a call on a transform of the other float type in between this world's calls
fn foreign_op(rng: &mut Rng, nmax: usize) -> Op {
    Op::Foreign {
        pk: *rng.pick(&PKS),
        len: pools(nmax.min(4096)).pick_pos(rng),
        dir: pick_dir(rng),
        entry: *rng.pick(&[Entry::Process, Entry::Process, Entry::InPlace, Entry::OutOfPlace, Entry::Immut]),
        k: pick_k(rng, 3),
        seed: rng.next(),
        place: pick_place(rng),
        same_type: false,
    }
}

/// history fault `grow.then.shrink`: one large allocating call first (own or other float type), so that whatever a thread
/// or a process keeps between calls (pools, caches, high-water marks) is sized by it when the small calls follow
fn big_first_op(rng: &mut Rng) -> Op {
    Op::Foreign {
        pk: *rng.pick(&[PK::Auto, PK::Auto, PK::Scalar, PK::Avx, PK::Sse]),
        len: *rng.pick(&[1usize << 15, 1 << 16, 1 << 17, 40000, 3 << 15, 100_000]),
        dir: pick_dir(rng),
        entry: *rng.pick(&[Entry::Process, Entry::Process, Entry::Process, Entry::InPlace]),
        k: 1,
        seed: rng.next(),
        place: pick_place(rng),
        same_type: rng.chance(0.6),
    }
}

/// size fault `big.batch`: a call whose total size (not its transform length) is large
fn big_batch_op(rng: &mut Rng, inst: InstRef, entries: &[Entry]) -> Op {
    Op::BigBatch { inst, entry: *rng.pick(entries), target_elems: *rng.pick(&[1u32 << 20, 1 << 21, 3 << 19, 1_200_000]), seed: rng.next(), place: pick_place(rng) }
}

fn pick_fault(rng: &mut Rng) -> ShapeFault {
    match rng.below(13) {
        12 => ShapeFault::EmptyData { out_chunks: rng.below(3) as u8, out_extra: rng.below(2) as u8, short_scratch: rng.chance(0.5) },
        0..=4 => ShapeFault::Data { k: 1 + rng.below(4) as u8, delta: *rng.pick(&[-1, 1, -1, 1, 2, -2]) },
        5 => ShapeFault::Data { k: 0, delta: 1 },
        6 => ShapeFault::Out { delta: *rng.pick(&[-1i64, 1, 1, -1]) },
        7 => ShapeFault::OutChunks { k: 1 + rng.below(4) as u8, dk: *rng.pick(&[-1i8, 1, -1, 1, 2, -2]) },
        8 => ShapeFault::ScratchZero,
        9 => ShapeFault::ScratchMinus1,
        10 => ShapeFault::DataAndOut { k: 1 + rng.below(3) as u8, delta: *rng.pick(&[-1, 1]), odelta: *rng.pick(&[-1i64, 1]) },
        _ => ShapeFault::OutAndScratch { delta: *rng.pick(&[-1i64, 1]) },
    }
}

// ---------------------------------------------------------------------------------------------

fn gen_c11(rng: &mut Rng, tier: Tier) -> Case {
    let elem = pick_elem(rng, 10);
    let mut case = base_case("C11", elem, rng);
    let nmax = pick_nmax(rng, tier, 2048, 1 << 14);
    let pk0 = *rng.pick(pks_for(elem));
    case.planners.push(pk0);
    let ninst = 1 + rng.below(3) as usize;
    for _ in 0..ninst {
        let dir = pick_dir(rng);
        if rng.chance(0.4) {
            let len = pools(nmax).pick_pos(rng);
            case.insts.push(InstDef { spec: Spec::Planned(pk0, len), dir, from_planner: Some(0) });
        } else {
            case.insts.push(InstDef { spec: gen_spec(rng, nmax, elem, 25, 2), dir, from_planner: None });
        }
    }
    let tmax = if tier.thorough { 16 } else { 8 };
    let nthreads = if rng.chance(0.15) { tmax } else { 2 + rng.below(tmax as u64 - 1) as usize };
    // a few inputs only, so that identical calls recur across threads and over time
    let inputs: Vec<InputSpec> = (0..3).map(|_| InputSpec { seed: rng.next(), kind: InputKind::Dense }).collect();
    let hot = rng.below(ninst as u64) as u16;
    for _ in 0..nthreads {
        let nops = 1 + rng.below(4) as usize;
        let mut ops = Vec::new();
        for _ in 0..nops {
            let inst = InstRef::Shared(if rng.chance(0.7) { hot } else { rng.below(ninst as u64) as u16 });
            let r = rng.below(100);
            if r < 6 && elem != ElemKind::Fx {
                ops.push(foreign_op(rng, nmax));
            } else if r < 82 {
                let mut op = good_call(rng, inst, &ENTRIES, 4, &inputs);
                // "bit-for-bit what a single isolated call returns": whatever the workspace holds (the isolated call gets zeros)
                if rng.chance(0.3) {
                    if let Op::Call { scratch_fill, out_fill, scratch_extra, .. } = &mut op {
                        *scratch_fill = *rng.pick(&FILLS);
                        *out_fill = *rng.pick(&FILLS);
                        *scratch_extra = *rng.pick(&[0u32, 0, 1, 17]);
                    }
                }
                ops.push(op);
            } else if r < 90 {
                ops.push(Op::BadCall { inst, entry: *rng.pick(&ENTRIES), fault: pick_fault(rng), place: pick_place(rng), seed: rng.next() });
            } else if r < 94 {
                ops.push(Op::DropPlanner { planner: 0 });
            } else if elem == ElemKind::Fx {
                ops.push(Op::Crash { inst, entry: *rng.pick(&ENTRIES), k: pick_k(rng, 3), input: *rng.pick(&inputs), at: rng.next() });
            } else {
                ops.push(good_call(rng, inst, &ENTRIES, 4, &inputs));
            }
        }
        case.threads.push(ops);
    }
    if elem != ElemKind::Fx {
        if rng.chance(0.03) {
            let op = big_first_op(rng);
            case.threads[0].insert(0, op);
        }
        if rng.chance(0.02) {
            let op = big_batch_op(rng, InstRef::Shared(hot), &ENTRIES);
            let t = rng.below(nthreads as u64) as usize;
            case.threads[t].push(op);
        }
    }
    case
}

fn gen_c07(rng: &mut Rng, tier: Tier) -> Case {
    let elem = pick_elem(rng, 5);
    let mut case = base_case("C07", elem, rng);
    let nmax = pick_nmax(rng, tier, 1024, 1 << 13);
    let ninst = 1 + rng.below(2) as usize;
    for _ in 0..ninst {
        // emphasis on butterflies (dedicated 2x path in the SSE code)
        let spec = if rng.chance(0.45) {
            let pks = pks_for(elem);
            Spec::Planned(*rng.pick(pks), *rng.pick(&pools(nmax).bfly))
        } else {
            gen_spec(rng, nmax, elem, 20, 2)
        };
        case.insts.push(InstDef { spec, dir: pick_dir(rng), from_planner: None });
    }
    let nthreads = 1 + rng.below(4) as usize;
    case.threads = vec![Vec::new(); nthreads];
    // split worlds: k chunks of one allocation, each processed by some thread through its own sub-slice
    let nsplit = rng.below(3) as usize;
    for b in 0..nsplit {
        let inst = rng.below(ninst as u64) as u16;
        let k = 2 + rng.below(7) as u8;
        let entry = *rng.pick(&ENTRIES);
        case.shared_bufs.push(SharedBufDef { inst, k, input: InputSpec { seed: rng.next(), kind: InputKind::Dense }, entry, place: pick_place(rng) });
        for chunk in 0..k {
            let t = rng.below(nthreads as u64) as usize;
            case.threads[t].push(Op::SplitChunk { inst: InstRef::Shared(inst), entry, buf: b as u16, chunk });
        }
    }
    for t in 0..nthreads {
        let np = rng.below(3) as usize + if nsplit == 0 { 1 } else { 0 };
        for _ in 0..np {
            let k = 1 + rng.below(8) as u8;
            let op = Op::Poison {
                inst: InstRef::Shared(rng.below(ninst as u64) as u16),
                entry: *rng.pick(&ENTRIES),
                k,
                keep: rng.below(k as u64) as u8,
                fill: *rng.pick(&[Fill::NaN, Fill::NaN, Fill::PosInf, Fill::NegInf, Fill::Huge]),
                input: InputSpec { seed: rng.next(), kind: InputKind::Dense },
            };
            let pos = rng.below(case.threads[t].len() as u64 + 1) as usize;
            case.threads[t].insert(pos, op);
        }
    }
    case
}

fn gen_c08(rng: &mut Rng, tier: Tier) -> Case {
    let elem = pick_elem(rng, 5);
    let mut case = base_case("C08", elem, rng);
    let nmax = pick_nmax(rng, tier, 2048, 1 << 14);
    let ninst = 1 + rng.below(3) as usize;
    // AVX chains over cached bases: plan related lengths on one live planner
    let pk0 = *rng.pick(pks_for(elem));
    case.planners.push(pk0);
    // history: instances planned one after the other on one live planner, either chain-related lengths or an inner-length
    // family in one direction (so that a later plan is built around an earlier, cached one)
    let fam: Option<(Vec<usize>, Dir)> = if rng.chance(0.3) { Some((pools(nmax).family(rng), pick_dir(rng))) } else { None };
    let ninst = if fam.is_some() { ninst.max(2) } else { ninst };
    for i in 0..ninst {
        let dir = pick_dir(rng);
        if let Some((f, d)) = &fam {
            let len = if i < 2 && f.len() >= 2 && rng.chance(0.7) { f[i] } else { *rng.pick(f) };
            case.insts.push(InstDef { spec: Spec::Planned(pk0, len), dir: *d, from_planner: Some(0) });
        } else if rng.chance(0.15) {
            // small two-level constructor nests (the alphabet the C12 check enumerates): scratch-length coincidences
            let nests = crate::pools::systematic_nests();
            case.insts.push(InstDef { spec: nests[rng.below(nests.len() as u64) as usize].clone(), dir, from_planner: None });
        } else if rng.chance(0.35) {
            case.insts.push(InstDef { spec: Spec::Planned(pk0, pools(nmax).pick_chain(rng)), dir, from_planner: Some(0) });
        } else {
            case.insts.push(InstDef { spec: gen_spec(rng, nmax, elem, 35, 3), dir, from_planner: None });
        }
    }
    let nthreads = 1 + rng.below(2) as usize;
    for _ in 0..nthreads {
        let mut ops = Vec::new();
        let nops = 1 + rng.below(3) as usize;
        for _ in 0..nops {
            ops.push(Op::ScratchGrid {
                inst: InstRef::Shared(rng.below(ninst as u64) as u16),
                entry: *rng.pick(&SCRATCH_ENTRIES),
                k: 1 + rng.below(3) as u8,
                input: InputSpec { seed: rng.next(), kind: InputKind::Dense },
            });
        }
        case.threads.push(ops);
    }
    case
}

fn gen_c09(rng: &mut Rng, tier: Tier) -> Case {
    let elem = pick_elem(rng, 5);
    let mut case = base_case("C09", elem, rng);
    let nmax = pick_nmax(rng, tier, 1024, 1 << 13);
    let ninst = 1 + rng.below(2) as usize;
    for _ in 0..ninst {
        let spec = match rng.below(20) {
            0 => Spec::Planned(*rng.pick(pks_for(elem)), 0),
            1 => Spec::Planned(*rng.pick(pks_for(elem)), 1),
            2 => Spec::Butterfly(1),
            3 => Spec::Dft(rng.below(3) as usize),
            _ => gen_spec(rng, nmax, elem, 25, 2),
        };
        case.insts.push(InstDef { spec, dir: pick_dir(rng), from_planner: None });
    }
    let nthreads = 1 + rng.below(3) as usize;
    let inputs: Vec<InputSpec> = (0..2).map(|_| InputSpec { seed: rng.next(), kind: InputKind::Dense }).collect();
    for t in 0..nthreads {
        let mut ops = Vec::new();
        if t == 0 || rng.chance(0.5) {
            for _ in 0..1 + rng.below(2) {
                ops.push(Op::ShapeGrid { inst: InstRef::Shared(rng.below(ninst as u64) as u16), entry: *rng.pick(&ENTRIES), kmax: 2 + rng.below(3) as u8, seed: rng.next() });
            }
        }
        for _ in 0..rng.below(3) {
            let inst = InstRef::Shared(rng.below(ninst as u64) as u16);
            if rng.chance(0.5) {
                ops.push(good_call(rng, inst, &ENTRIES, 4, &inputs));
            } else {
                ops.push(Op::BadCall { inst, entry: *rng.pick(&ENTRIES), fault: pick_fault(rng), place: pick_place(rng), seed: rng.next() });
            }
        }
        rng.shuffle(&mut ops);
        case.threads.push(ops);
    }
    case
}

fn gen_c15(rng: &mut Rng, tier: Tier) -> Case {
    let elem = pick_elem(rng, 12);
    let mut case = base_case("C15", elem, rng);
    let nmax = pick_nmax(rng, tier, 4096, 1 << 15);
    let ninst = 1 + rng.below(3) as usize;
    for _ in 0..ninst {
        case.insts.push(InstDef { spec: gen_spec(rng, nmax, elem, 20, 2), dir: pick_dir(rng), from_planner: None });
    }
    let nthreads = 1 + rng.below(4) as usize;
    case.threads = vec![Vec::new(); nthreads];
    let nshared = rng.below(3) as usize;
    for b in 0..nshared {
        let inst = rng.below(ninst as u64) as u16;
        case.shared_bufs.push(SharedBufDef { inst, k: 1 + rng.below(8) as u8, input: InputSpec { seed: rng.next(), kind: InputKind::Dense }, entry: Entry::Immut, place: pick_place(rng) });
        let readers = 2 + rng.below(3) as usize;
        for _ in 0..readers {
            let t = rng.below(nthreads as u64) as usize;
            case.threads[t].push(Op::SharedImmut { inst: InstRef::Shared(inst), buf: b as u16 });
        }
    }
    for t in 0..nthreads {
        let nops = 1 + rng.below(4) as usize;
        for _ in 0..nops {
            let inst = InstRef::Shared(rng.below(ninst as u64) as u16);
            let r = rng.below(100);
            let op = if r < 60 {
                Op::Call { inst, entry: Entry::Immut, k: pick_k(rng, 8), input: pick_input(rng), scratch_extra: 0, scratch_fill: *rng.pick(&FILLS), out_fill: *rng.pick(&FILLS), place: pick_place(rng), dft_ref: false }
            } else if r < 85 || elem != ElemKind::Fx {
                Op::BadCall { inst, entry: Entry::Immut, fault: pick_fault(rng), place: pick_place(rng), seed: rng.next() }
            } else {
                Op::Crash { inst, entry: Entry::Immut, k: pick_k(rng, 4), input: pick_input(rng), at: rng.next() }
            };
            let pos = rng.below(case.threads[t].len() as u64 + 1) as usize;
            case.threads[t].insert(pos, op);
        }
    }
    if elem != ElemKind::Fx && rng.chance(0.03) {
        let which = InstRef::Shared(rng.below(ninst as u64) as u16);
        let op = big_batch_op(rng, which, &[Entry::Immut]);
        case.threads[0].push(op);
    }
    case
}

/// C12 worlds: every instance is a nest of the public constructors (within their documented preconditions); each is
/// subjected to the fault grids of C08/C09, neighbour poison and sub-slice splits (C07), guard-paged calls (C03) and the
/// DFT reference (C01 clause), while other simulated threads use the same instance.
pub const C12_SYS_QUICK: u64 = 1200;

fn gen_c12(rng: &mut Rng, tier: Tier, miri: bool, index: u64, verif_seed: u64) -> Case {
    // low run indices: the systematic two-level nests over a small alphabet (all of them in the thorough tier, a
    // VERIF_SEED-dependent sample in the quick tier)
    let nests = crate::pools::systematic_nests();
    let nsys = nests.len() as u64;
    if !miri && index < if tier.thorough { nsys } else { C12_SYS_QUICK } {
        let j = if tier.thorough { index } else { (index * 7919 + verif_seed.wrapping_mul(104729)) % nsys };
        let elem = if j % 2 == 0 { ElemKind::F64 } else { ElemKind::F32 };
        let mut case = base_case("C12", elem, rng);
        case.policy = Policy::Seq;
        case.insts.push(InstDef { spec: nests[j as usize].clone(), dir: if (j / 2) % 2 == 0 { Dir::Fwd } else { Dir::Inv }, from_planner: None });
        let inst = InstRef::Shared(0);
        let mut ops = Vec::new();
        for e in 0..4usize {
            ops.push(Op::Call { inst, entry: ENTRIES[e], k: 1 + ((j as usize + e) % 3) as u8, input: InputSpec { seed: rng.next(), kind: InputKind::Dense }, scratch_extra: 0, scratch_fill: Fill::NaN, out_fill: Fill::NaN, place: PLACES[(j as usize + e) % 4], dft_ref: true });
        }
        ops.push(Op::ShapeGrid { inst, entry: ENTRIES[(j % 4) as usize], kmax: 2, seed: rng.next() });
        ops.push(Op::ScratchGrid { inst, entry: SCRATCH_ENTRIES[(j % 3) as usize], k: 1 + (j % 2) as u8, input: InputSpec { seed: rng.next(), kind: InputKind::Dense } });
        case.threads.push(ops);
        return case;
    }
    let elem = pick_elem(rng, 8);
    let mut case = base_case("C12", elem, rng);
    let nmax = if miri {
        if tier.thorough {
            160
        } else {
            64
        }
    } else {
        pick_nmax(rng, tier, 2048, 20000)
    };
    let depth = if miri { 1 + rng.below(2) as u32 } else { 1 + rng.below(if tier.thorough { 4 } else { 3 }) as u32 };
    let ninst = if miri { 1 } else { 1 + rng.below(2) as usize };
    for _ in 0..ninst {
        let mut spec = ctor_tree(rng, depth, nmax, pks_for(elem));
        for _ in 0..6 {
            if !spec.is_planned() {
                break;
            }
            spec = ctor_tree(rng, depth, nmax, pks_for(elem));
        }
        case.insts.push(InstDef { spec, dir: pick_dir(rng), from_planner: None });
    }
    let nthreads = if miri { 1 } else { 1 + rng.below(3) as usize };
    case.threads = vec![Vec::new(); nthreads];
    if !miri && rng.chance(0.4) {
        let inst = rng.below(ninst as u64) as u16;
        let k = 2 + rng.below(5) as u8;
        let entry = *rng.pick(&ENTRIES);
        case.shared_bufs.push(SharedBufDef { inst, k, input: InputSpec { seed: rng.next(), kind: InputKind::Dense }, entry, place: pick_place(rng) });
        for chunk in 0..k {
            let t = rng.below(nthreads as u64) as usize;
            case.threads[t].push(Op::SplitChunk { inst: InstRef::Shared(inst), entry, buf: 0, chunk });
        }
    }
    for t in 0..nthreads {
        let nops = if miri { 3 } else { 2 + rng.below(4) as usize };
        for _ in 0..nops {
            let inst = InstRef::Shared(rng.below(ninst as u64) as u16);
            let r = rng.below(100);
            let op = if r < 35 {
                Op::Call { inst, entry: *rng.pick(&ENTRIES), k: pick_k(rng, if miri { 3 } else { 6 }), input: pick_input(rng), scratch_extra: *rng.pick(&[0u32, 0, 0, 1, 17]), scratch_fill: *rng.pick(&FILLS), out_fill: *rng.pick(&FILLS), place: pick_place(rng), dft_ref: true }
            } else if r < 50 {
                Op::BadCall { inst, entry: *rng.pick(&ENTRIES), fault: pick_fault(rng), place: pick_place(rng), seed: rng.next() }
            } else if r < 65 && !miri {
                Op::ShapeGrid { inst, entry: *rng.pick(&ENTRIES), kmax: 2 + rng.below(2) as u8, seed: rng.next() }
            } else if r < 80 && !miri {
                Op::ScratchGrid { inst, entry: *rng.pick(&SCRATCH_ENTRIES), k: 1 + rng.below(3) as u8, input: InputSpec { seed: rng.next(), kind: InputKind::Dense } }
            } else {
                let k = 1 + rng.below(if miri { 3 } else { 6 }) as u8;
                Op::Poison { inst, entry: *rng.pick(&ENTRIES), k, keep: rng.below(k as u64) as u8, fill: *rng.pick(&[Fill::NaN, Fill::PosInf, Fill::NegInf, Fill::Huge]), input: InputSpec { seed: rng.next(), kind: InputKind::Dense } }
            };
            let pos = rng.below(case.threads[t].len() as u64 + 1) as usize;
            case.threads[t].insert(pos, op);
        }
    }
    case
}

/// Chain-related (length, direction) pairs for the systematic short planner histories.
pub const CHAIN_POOL: [(usize, Dir); 8] = [(72, Dir::Fwd), (576, Dir::Fwd), (576, Dir::Inv), (1152, Dir::Fwd), (4608, Dir::Fwd), (59, Dir::Fwd), (472, Dir::Fwd), (944, Dir::Inv)];
pub const SYS_SEQS: u64 = 8 + 64 + 512;
pub const SYS_TOTAL: u64 = SYS_SEQS * 8; // x 4 planner kinds x 2 element types

fn sys_sequence(mut i: u64) -> Vec<(usize, Dir)> {
    if i < 8 {
        return vec![CHAIN_POOL[i as usize]];
    }
    i -= 8;
    if i < 64 {
        return vec![CHAIN_POOL[(i / 8) as usize], CHAIN_POOL[(i % 8) as usize]];
    }
    i -= 64;
    vec![CHAIN_POOL[(i / 64) as usize], CHAIN_POOL[((i / 8) % 8) as usize], CHAIN_POOL[(i % 8) as usize]]
}

fn checked_call(rng: &mut Rng, slot: u16, kmax: u64) -> Op {
    Op::Call {
        inst: InstRef::Local(slot),
        entry: *rng.pick(&ENTRIES),
        k: pick_k(rng, kmax),
        input: pick_input(rng),
        scratch_extra: 0,
        scratch_fill: Fill::Zero,
        out_fill: Fill::Zero,
        place: pick_place(rng),
        dft_ref: true,
    }
}

fn gen_c10(rng: &mut Rng, tier: Tier, index: u64) -> Case {
    // the low run indices enumerate the systematic short histories
    let sys_budget = if tier.thorough { SYS_TOTAL } else { SYS_TOTAL / 4 };
    if index < sys_budget {
        // spread the quick subset over the whole enumeration
        let j = if tier.thorough { index } else { (index * 4 + (index / (SYS_TOTAL / 4)) % 4) % SYS_TOTAL };
        let seq = sys_sequence(j % SYS_SEQS);
        let cfg = j / SYS_SEQS;
        let elem = if cfg % 2 == 0 { ElemKind::F32 } else { ElemKind::F64 };
        let pk = PKS[(cfg / 2) as usize % 4];
        let mut case = base_case("C10", elem, rng);
        case.policy = Policy::Seq;
        case.planners.push(pk);
        case.twin = true;
        let mut ops = Vec::new();
        for (s, (len, dir)) in seq.iter().enumerate() {
            ops.push(Op::Plan { planner: 0, len: *len, dir: *dir, via: false, slot: s as u16 });
            ops.push(Op::Call { inst: InstRef::Local(s as u16), entry: ENTRIES[(j as usize + s) % 4], k: 1, input: InputSpec { seed: rng.next(), kind: InputKind::Sparse(3) }, scratch_extra: 0, scratch_fill: Fill::Zero, out_fill: Fill::Zero, place: PLACES[(j as usize + s) % 4], dft_ref: true });
        }
        case.threads.push(ops);
        return case;
    }
    let elem = pick_elem(rng, 4);
    let mut case = base_case("C10", elem, rng);
    case.twin = true;
    if rng.chance(if tier.thorough { 0.04 } else { 0.03 }) {
        // marathon history: several hundred distinct requests to one planner (whatever a planner does once its caches are
        // large - bounding, evicting, rehashing - only shows after a long history), then reference-checked calls on
        // earlier and on new transforms; the twin planner replays all of it
        let pk = *rng.pick(pks_for(elem));
        case.planners.push(pk);
        case.policy = Policy::Seq;
        let top = 300 + rng.below(500) as usize;
        let mut lens: Vec<usize> = (2..=top).collect();
        match rng.below(3) {
            0 => lens.reverse(),
            1 => rng.shuffle(&mut lens),
            _ => {}
        }
        let both = rng.chance(0.5);
        let dir = pick_dir(rng);
        let mut ops = Vec::new();
        let mut slot = 0u16;
        for (i, len) in lens.iter().enumerate() {
            ops.push(Op::Plan { planner: 0, len: *len, dir: if both && i % 2 == 1 { dir.opp() } else { dir }, via: false, slot });
            slot += 1;
        }
        // second pass: ask again for lengths of the first pass (what comes back now depends on what the planner kept)
        for _ in 0..60 + rng.below(120) {
            let i = rng.below(lens.len() as u64) as usize;
            ops.push(Op::Plan { planner: 0, len: lens[i], dir: if both && i % 2 == 1 { dir.opp() } else { dir }, via: false, slot });
            slot += 1;
        }
        for _ in 0..6 {
            let s = rng.below(slot as u64) as u16;
            ops.push(checked_call(rng, s, 3));
        }
        for _ in 0..6 {
            let len = 2 + rng.below(2 * top as u64) as usize;
            ops.push(Op::Plan { planner: 0, len, dir: pick_dir(rng), via: false, slot });
            ops.push(checked_call(rng, slot, 3));
            slot += 1;
        }
        case.threads.push(ops);
        return case;
    }
    let nmax = pick_nmax(rng, tier, 1 << 13, 1 << 16);
    let npl = 1 + rng.below(3) as usize;
    for _ in 0..npl {
        case.planners.push(*rng.pick(pks_for(elem)));
    }
    let nthreads = 1 + rng.below(4) as usize;
    // a small set of related lengths per case so that requests hit one another's cache entries
    let mode = rng.below(100);
    let fam = mode < 30;
    // prime runs are taken in order (one cursor for the whole case), so that the linearised history is mostly monotone
    let run = (30..50).contains(&mode);
    let mut cursor = 0usize;
    let lens: Vec<usize> = if fam {
        pools(nmax).family(rng)
    } else if run {
        pools(nmax).prime_run(rng)
    } else {
        (0..2 + rng.below(4)).map(|_| pools(nmax).pick_chain(rng)).collect()
    };
    // inner-length families matter when the direction agrees: bias towards one direction there
    let fam_dir = pick_dir(rng);
    let mut left = 3 + rng.below(10) as usize; // total requests <= 12
    for _ in 0..nthreads {
        let mut ops = Vec::new();
        let mut slot = 0u16;
        let nreq = (1 + rng.below(5) as usize).min(left.max(1));
        left = left.saturating_sub(nreq);
        for _ in 0..nreq {
            let planner = if run && rng.chance(0.8) { 0 } else { rng.below(npl as u64) as u16 };
            let len = if run && !lens.is_empty() {
                cursor += 1;
                lens[(cursor - 1) % lens.len()]
            } else if rng.chance(0.85) {
                *rng.pick(&lens)
            } else {
                pools(nmax).pick(rng)
            };
            let r = if run { rng.below(80) } else { rng.below(100) };
            if r < 70 {
                let dir = if (fam || run) && rng.chance(0.8) { fam_dir } else { pick_dir(rng) };
                ops.push(Op::Plan { planner, len, dir, via: rng.chance(0.3), slot });
                ops.push(checked_call(rng, slot, 6));
                slot += 1;
            } else if r < 88 {
                ops.push(Op::RoundTrip { planner, len, first: pick_dir(rng), entry: *rng.pick(&ENTRIES), input: InputSpec { seed: rng.next(), kind: InputKind::Dense } });
            } else {
                ops.push(Op::DropPlanner { planner });
                if slot > 0 {
                    // transforms stay valid after the planner is dropped
                    let s = rng.below(slot as u64) as u16;
                    ops.push(checked_call(rng, s, 5));
                }
            }
        }
        // use the earlier transforms again at the end (after other threads' requests and drops)
        for s in 0..slot {
            if rng.chance(0.5) {
                ops.push(checked_call(rng, s, 5));
            }
        }
        case.threads.push(ops);
    }
    case
}

/// Engine B worlds for C10: 2-3 free-running threads plan at the same time, each on its own planner (or all on one, behind
/// the mutex), small Rader / Bluestein primes and composites; every returned transform is reference-checked. Whatever
/// planning shares across planners (process-wide memos, statics) is exercised under Miri's preemptive scheduler and its
/// data-race detector.
fn gen_c10_miri(rng: &mut Rng, tier: Tier) -> Case {
    let elem = if rng.chance(0.5) { ElemKind::F32 } else { ElemKind::F64 };
    let mut case = base_case("C10", elem, rng);
    let nthreads = 2 + rng.below(2) as usize;
    let shared = rng.chance(0.25);
    let pk = *rng.pick(&PKS);
    for _ in 0..(if shared { 1 } else { nthreads }) {
        case.planners.push(if rng.chance(0.7) { pk } else { *rng.pick(&PKS) });
    }
    let all: &[usize] = if tier.thorough { &[37, 41, 43, 47, 53, 59, 61, 67, 71, 73, 79, 83, 89, 97, 101, 103, 107, 109, 113, 127] } else { &[37, 41, 43, 47, 53, 59, 61, 67, 71, 73] };
    // a pool of three or four primes per case, so that the threads request the same and neighbouring primes repeatedly
    let primes: Vec<usize> = (0..3 + rng.below(2)).map(|_| *rng.pick(all)).collect();
    for t in 0..nthreads {
        let mut ops = Vec::new();
        for s in 0..3u16 {
            let len = if rng.chance(0.85) { *rng.pick(&primes) } else { 2 + rng.below(62) as usize };
            ops.push(Op::Plan { planner: if shared { 0 } else { t as u16 }, len, dir: pick_dir(rng), via: rng.chance(0.3), slot: s });
            ops.push(Op::Call { inst: InstRef::Local(s), entry: *rng.pick(&ENTRIES), k: pick_k(rng, 2), input: pick_input(rng), scratch_extra: 0, scratch_fill: Fill::Zero, out_fill: Fill::Zero, place: Place::Right, dft_ref: true });
        }
        case.threads.push(ops);
    }
    case
}

fn gen_c06(rng: &mut Rng, tier: Tier) -> Case {
    let elem = pick_elem(rng, 4);
    let mut case = base_case("C06", elem, rng);
    let nmax = if tier.thorough {
        if rng.chance(0.2) {
            1 << 20
        } else {
            1 << 16
        }
    } else if rng.chance(0.15) {
        1 << 16
    } else {
        1 << 13
    };
    let npl = 1 + rng.below(2) as usize;
    for _ in 0..npl {
        case.planners.push(*rng.pick(pks_for(elem)));
    }
    let nthreads = 1 + rng.below(3) as usize;
    let lens: Vec<usize> = (0..2 + rng.below(3)).map(|_| pools(nmax).pick_chain(rng)).collect();
    for _ in 0..nthreads {
        let mut ops = Vec::new();
        let mut slot = 0u16;
        for _ in 0..1 + rng.below(4) {
            let planner = rng.below(npl as u64) as u16;
            let len = if rng.chance(0.8) { *rng.pick(&lens) } else { pools(nmax).pick(rng) };
            if rng.chance(0.75) {
                ops.push(Op::RoundTrip { planner, len, first: pick_dir(rng), entry: *rng.pick(&ENTRIES), input: InputSpec { seed: rng.next(), kind: if rng.chance(0.8) { InputKind::Dense } else { InputKind::Sparse(2) } } });
            } else {
                // unrelated requests interleaved between other threads' forward and inverse plans
                ops.push(Op::Plan { planner, len, dir: pick_dir(rng), via: rng.chance(0.5), slot });
                slot += 1;
            }
        }
        case.threads.push(ops);
    }
    case
}

fn gen_c13(rng: &mut Rng, tier: Tier, index: u64) -> Case {
    let host = crate::oracle::HOSTS[(index % 5) as usize].1;
    let elem = match (index / 5) % 9 {
        8 => ElemKind::Fx,
        x if x % 2 == 0 => ElemKind::F32,
        _ => ElemKind::F64,
    };
    let mut case = base_case("C13", elem, rng);
    case.host = host;
    case.policy = Policy::Seq;
    case.planners = vec![PK::Auto, PK::Sse, PK::Avx, PK::Scalar];
    let mut ops = vec![Op::HostCheck];
    let dense_n = if tier.thorough { 16384 } else { 2048 };
    let block = 16u64;
    let nblocks = dense_n / block + 1;
    // which dense block this run walks: every (host, elem-class, dir) combination walks all blocks
    let walk = index / 45;
    let mut slot = 0u16;
    if index % 3 != 2 {
        let b = walk % nblocks;
        let dir = if (index / 5) % 2 == 0 { Dir::Fwd } else { Dir::Inv };
        for n in (b * block)..((b + 1) * block) {
            ops.push(Op::Plan { planner: 0, len: n as usize, dir, via: n % 2 == 1, slot });
            let s = InstRef::Local(slot);
            ops.push(Op::Call { inst: s, entry: ENTRIES[(n % 4) as usize], k: 1, input: InputSpec { seed: rng.next(), kind: InputKind::Impulse(rng.below(1 << 16) as u32) }, scratch_extra: 0, scratch_fill: Fill::Zero, out_fill: Fill::Zero, place: PLACES[(n % 4) as usize], dft_ref: true });
            ops.push(Op::Call { inst: s, entry: ENTRIES[((n + 1) % 4) as usize], k: 1 + ((n + walk) % 6) as u8, input: InputSpec { seed: rng.next(), kind: InputKind::Dense }, scratch_extra: 0, scratch_fill: Fill::Zero, out_fill: Fill::Zero, place: PLACES[((n + 2) % 4) as usize], dft_ref: true });
            // the other two entry points as well (exact advertised scratch each): for the fixed-size kernels of every level
            // with 4-7 chunks (their 2x-unrolled chunk loops), for longer transforms with one chunk
            for e in 2..4u64 {
                let k = if n < 64 { 4 + ((n + e + walk) % 4) as u8 } else { 1 };
                ops.push(Op::Call { inst: s, entry: ENTRIES[((n + e) % 4) as usize], k, input: InputSpec { seed: rng.next(), kind: InputKind::Dense }, scratch_extra: 0, scratch_fill: Fill::Zero, out_fill: Fill::Zero, place: PLACES[((n + e) % 4) as usize], dft_ref: n < 64 });
            }
            slot += 1;
        }
    } else {
        let nmax = pick_nmax(rng, tier, 1 << 13, 1 << 16);
        for _ in 0..4 + rng.below(6) {
            let p = pools(nmax);
            // emphasis on primes whose Rader/Bluestein choice differs without AVX2, and their multiples
            let len = match rng.below(10) {
                0..=2 => *rng.pick(&p.rader),
                3 | 4 => *rng.pick(&p.blue),
                5 | 6 => *rng.pick(&p.semi),
                _ => p.pick(rng),
            };
            if rng.chance(0.3) {
                // the same length through every planner kind, one after the other on this thread, in a drawn order (whatever
                // planning keeps per thread or per process must not carry over from one planner kind to the next)
                let mut order = [0u16, 1, 2, 3];
                rng.shuffle(&mut order);
                let dir = pick_dir(rng);
                for pl in order {
                    ops.push(Op::Plan { planner: pl, len, dir, via: false, slot });
                    ops.push(checked_call(rng, slot, 4));
                    slot += 1;
                }
                continue;
            }
            let planner = match rng.below(10) {
                0..=6 => 0,
                7 => 1,
                8 => 2,
                _ => 3,
            };
            ops.push(Op::Plan { planner, len, dir: pick_dir(rng), via: rng.chance(0.3), slot });
            ops.push(checked_call(rng, slot, 8));
            if rng.chance(0.3) {
                ops.push(Op::BadCall { inst: InstRef::Local(slot), entry: *rng.pick(&ENTRIES), fault: pick_fault(rng), place: pick_place(rng), seed: rng.next() });
            }
            slot += 1;
        }
    }
    case.threads.push(ops);
    case
}

fn gen_c03(rng: &mut Rng, tier: Tier, miri: bool, fixed: Option<(ElemKind, Vec<Spec>)>) -> Case {
    let elem = match &fixed {
        Some((e, _)) => *e,
        None => {
            if miri {
                pick_elem(rng, 6)
            } else {
                pick_elem(rng, 3)
            }
        }
    };
    let mut case = base_case("C03", elem, rng);
    let nmax = if miri {
        if tier.thorough {
            512
        } else {
            96
        }
    } else if tier.thorough && rng.chance(0.2) {
        // (2^18 made single sanitizer-flavour runs with full shape grids take minutes on a busy machine)
        1 << 16
    } else if rng.chance(0.3) {
        1 << 14
    } else {
        2048
    };
    let ninst = match &fixed {
        Some((_, v)) => v.len(),
        None => {
            if miri {
                1
            } else {
                1 + rng.below(3) as usize
            }
        }
    };
    for i in 0..ninst {
        let spec = if let Some((_, v)) = &fixed {
            // Engine B: one representative per algorithm family of every planner (the same list C11/C15/C07 walk)
            v[i].clone()
        } else if rng.chance(0.1) {
            // fault ctor.precondition: the caller violates a documented constructor precondition
            ill_ctor(rng, pks_for(elem))
        } else if rng.chance(0.3) && !miri {
            // row-length residues of the AVX column butterflies
            Spec::Planned(*rng.pick(&[PK::Avx, PK::Auto]), *rng.pick(&pools(nmax.min(1 << 16)).avxrem))
        } else if rng.chance(0.25) {
            // the fixed-size kernels of every planner (2x-unrolled SIMD butterflies included)
            Spec::Planned(*rng.pick(pks_for(elem)), *rng.pick(&pools(512).bfly))
        } else {
            gen_spec(rng, nmax, elem, if miri { 30 } else { 30 }, if tier.thorough { 3 } else { 2 })
        };
        case.insts.push(InstDef { spec, dir: pick_dir(rng), from_planner: None });
    }
    let nthreads = if miri { 1 } else { 1 + rng.below(3) as usize };
    case.threads = vec![Vec::new(); nthreads];
    if rng.chance(0.35) {
        let inst = rng.below(ninst as u64) as u16;
        let k = 2 + rng.below(if miri { 2 } else { 7 }) as u8;
        let entry = *rng.pick(&ENTRIES);
        case.shared_bufs.push(SharedBufDef { inst, k, input: InputSpec { seed: rng.next(), kind: InputKind::Dense }, entry, place: pick_place(rng) });
        for chunk in 0..k {
            let t = rng.below(nthreads as u64) as usize;
            case.threads[t].push(Op::SplitChunk { inst: InstRef::Shared(inst), entry, buf: 0, chunk });
        }
    }
    if !miri {
        // the full grid of shape faults (as in C09), judged here for "panics, and never touches memory it was not given"
        for t in 0..nthreads {
            if rng.chance(0.5) {
                case.threads[t].push(Op::ShapeGrid { inst: InstRef::Shared(rng.below(ninst as u64) as u16), entry: *rng.pick(&ENTRIES), kmax: 2 + rng.below(2) as u8, seed: rng.next() });
            }
        }
    }
    if fixed.is_some() {
        // every family instance is called well-shaped (two entry points, k up to 3) and ill-shaped at least once
        for i in 0..ninst {
            let inst = InstRef::Shared(i as u16);
            let e0 = rng.below(4) as usize;
            for j in 0..2 {
                case.threads[0].push(Op::Call { inst, entry: ENTRIES[(e0 + j * (1 + rng.below(3) as usize)) % 4], k: pick_k(rng, 3), input: InputSpec { seed: rng.next(), kind: InputKind::Dense }, scratch_extra: 0, scratch_fill: Fill::Zero, out_fill: Fill::Zero, place: pick_place(rng), dft_ref: false });
            }
            case.threads[0].push(Op::BadCall { inst, entry: *rng.pick(&ENTRIES), fault: pick_fault(rng), place: pick_place(rng), seed: rng.next() });
        }
    }
    if !miri && fixed.is_none() && elem != ElemKind::Fx {
        if rng.chance(0.04) {
            let op = big_first_op(rng);
            case.threads[0].insert(0, op);
        }
        if rng.chance(0.02) {
            let which = InstRef::Shared(rng.below(ninst as u64) as u16);
            let op = big_batch_op(rng, which, &ENTRIES);
            case.threads[0].push(op);
        }
    }
    for t in 0..nthreads {
        let nops = if fixed.is_some() {
            0
        } else if miri {
            2 + rng.below(2) as usize
        } else {
            2 + rng.below(5) as usize
        };
        for _ in 0..nops {
            let inst = InstRef::Shared(rng.below(ninst as u64) as u16);
            let op = if elem != ElemKind::Fx && rng.chance(0.1) {
                foreign_op(rng, if miri { 64 } else { nmax })
            } else if rng.chance(0.6) {
                Op::Call { inst, entry: *rng.pick(&ENTRIES), k: pick_k(rng, if miri { 3 } else { 8 }), input: InputSpec { seed: rng.next(), kind: InputKind::Dense }, scratch_extra: 0, scratch_fill: Fill::Zero, out_fill: Fill::Zero, place: pick_place(rng), dft_ref: false }
            } else {
                Op::BadCall { inst, entry: *rng.pick(&ENTRIES), fault: pick_fault(rng), place: pick_place(rng), seed: rng.next() }
            };
            let pos = rng.below(case.threads[t].len() as u64 + 1) as usize;
            case.threads[t].insert(pos, op);
        }
    }
    case
}

/// One representative per algorithm family of every planner, for Engine B's instance pool.
pub fn miri_families() -> Vec<(ElemKind, Spec)> {
    let mut v = Vec::new();
    let b = |n: usize| Box::new(Spec::Butterfly(n));
    for elem in [ElemKind::F32, ElemKind::F64] {
        // portable code through the scalar planner: butterflies, Radix4, RadixN, Radix3, MixedRadix[Small], GoodThomas[Small], Rader, Bluestein
        for n in [2usize, 3, 4, 5, 6, 7, 8, 9, 11, 12, 13, 16, 17, 19, 23, 24, 27, 29, 31, 32, 64, 81, 60, 35, 77, 37, 59, 100, 210, 118] {
            v.push((elem, Spec::Planned(PK::Scalar, n)));
        }
        // SSE: every butterfly (the 2x-unrolled ones and the prime ones), SseRadix4, mixed radix over SSE leaves, Rader/Bluestein inners
        for n in [1usize, 2, 3, 4, 5, 6, 7, 8, 9, 10, 11, 12, 13, 15, 16, 17, 19, 23, 24, 29, 31, 32, 64, 128, 96, 37, 59, 35, 120] {
            v.push((elem, Spec::Planned(PK::Sse, n)));
        }
        // AVX: butterflies, each MixedRadix*xn radix (2,3,4,5,6,7,8,9,11,12,16) incl. odd row lengths, RadersAvx2, BluesteinsAvx
        for n in [5usize, 7, 8, 9, 11, 12, 16, 18, 24, 27, 32, 36, 48, 54, 64, 72, 128, 256, 22, 33, 44, 45, 63, 99, 80, 96, 135, 144, 160, 176, 189, 192, 216, 240, 275, 37, 59, 74, 118, 177, 146] {
            v.push((elem, Spec::Planned(PK::Avx, n)));
        }
        v.push((elem, Spec::Dft(5)));
        v.push((elem, Spec::Radix4(64)));
        v.push((elem, Spec::Radix3(27)));
        v.push((elem, Spec::MixedRadix(b(3), b(4))));
        v.push((elem, Spec::MixedRadixSmall(b(5), b(3))));
        v.push((elem, Spec::GoodThomas(b(7), b(4))));
        v.push((elem, Spec::GoodThomasSmall(b(5), b(8))));
        v.push((elem, Spec::Raders(b(16))));
        v.push((elem, Spec::Bluestein(10, Box::new(Spec::Radix4(32)))));
        v.push((elem, Spec::Radix4Base(1, b(6))));
        v.push((elem, Spec::Radix3Base(1, b(5))));
    }
    v
}

/// Consecutive families of one element type grouped so that a Miri case stays cheap (<= 3 instances, total length <= 100).
pub fn miri_family_chunks() -> Vec<(ElemKind, Vec<Spec>)> {
    let mut out: Vec<(ElemKind, Vec<Spec>)> = Vec::new();
    for (e, s) in miri_families() {
        let fits = match out.last() {
            Some((le, v)) => *le == e && v.len() < 3 && v.iter().map(|x| x.len()).sum::<usize>() + s.len() <= 100,
            None => false,
        };
        if fits {
            out.last_mut().unwrap().1.push(s);
        } else {
            out.push((e, vec![s]));
        }
    }
    out
}

/// Small worlds for Engine B (Miri): 2-3 free-running threads on shared instances.
fn gen_miri_shared(prop: &str, rng: &mut Rng, tier: Tier, index: u64, verif_seed: u64) -> Case {
    let chunks = miri_family_chunks();
    // three of four cases walk the family list (a different stretch of it for every VERIF_SEED), the rest are random
    let (elem, specs) = if index % 4 != 3 {
        let pos = (index - index / 4).wrapping_add(verif_seed.wrapping_mul(53)) as usize % chunks.len();
        chunks[pos].clone()
    } else {
        let elem = pick_elem(rng, 30);
        let nmax = if tier.thorough { 400 } else { 128 };
        (elem, vec![gen_spec(rng, nmax, elem, 40, 2)])
    };
    let mut case = base_case(prop, elem, rng);
    let dir = pick_dir(rng);
    for spec in specs.iter() {
        case.insts.push(InstDef { spec: spec.clone(), dir, from_planner: None });
    }
    let ninst = case.insts.len();
    let nthreads = 2 + rng.below(2) as usize;
    case.threads = vec![Vec::new(); nthreads];
    let inputs: Vec<InputSpec> = (0..2).map(|_| InputSpec { seed: rng.next(), kind: InputKind::Dense }).collect();
    match prop {
        "C11" => {
            // every thread calls every instance (in its own order), so that two threads are inside the same kernel and
            // inside different instances of related kernels at the same time
            for t in 0..nthreads {
                let mut order: Vec<usize> = (0..ninst).collect();
                rng.shuffle(&mut order);
                for i in order {
                    let op = good_call(rng, InstRef::Shared(i as u16), &ENTRIES, 3, &inputs);
                    case.threads[t].push(op);
                }
                if ninst == 1 && rng.chance(0.5) {
                    let op = good_call(rng, InstRef::Shared(0), &ENTRIES, 3, &inputs);
                    case.threads[t].push(op);
                }
            }
        }
        "C15" => {
            for i in 0..ninst {
                case.shared_bufs.push(SharedBufDef { inst: i as u16, k: 1 + rng.below(3) as u8, input: inputs[i % 2], entry: Entry::Immut, place: Place::Right });
            }
            for t in 0..nthreads {
                for i in 0..ninst {
                    case.threads[t].push(Op::SharedImmut { inst: InstRef::Shared(i as u16), buf: i as u16 });
                }
                if rng.chance(0.5) {
                    case.threads[t].push(Op::BadCall { inst: InstRef::Shared(rng.below(ninst as u64) as u16), entry: Entry::Immut, fault: pick_fault(rng), place: Place::Right, seed: rng.next() });
                }
            }
        }
        _ => {
            // C07: adjacent sub-slices of one allocation processed by different threads
            for i in 0..ninst {
                let k = nthreads as u8 + rng.below(2) as u8;
                let entry = *rng.pick(&ENTRIES);
                case.shared_bufs.push(SharedBufDef { inst: i as u16, k, input: inputs[i % 2], entry, place: Place::Right });
                for chunk in 0..k {
                    case.threads[(chunk as usize + i) % nthreads].push(Op::SplitChunk { inst: InstRef::Shared(i as u16), entry, buf: i as u16, chunk });
                }
            }
        }
    }
    case
}

/// The case of run `index` for `prop`. `engine_miri` selects the small Engine-B worlds.
pub fn gen_case(prop: &str, tier: Tier, verif_seed: u64, index: u64, engine_miri: bool) -> Case {
    let mut rng = Rng::new(run_seed(verif_seed, prop, index) ^ if engine_miri { 0xB } else { 0 });
    let mut case = if engine_miri {
        match prop {
            "C03" => {
                // every other case walks the algorithm-family list (a different stretch per VERIF_SEED), the rest are random worlds
                let fixed = if index % 2 == 0 {
                    let chunks = miri_family_chunks();
                    let pos = (index / 2).wrapping_add(verif_seed.wrapping_mul(53)) as usize % chunks.len();
                    Some(chunks[pos].clone())
                } else {
                    None
                };
                gen_c03(&mut rng, tier, true, fixed)
            }
            "C12" => gen_c12(&mut rng, tier, true, index, verif_seed),
            "C10" => gen_c10_miri(&mut rng, tier),
            _ => gen_miri_shared(prop, &mut rng, tier, index, verif_seed),
        }
    } else {
        match prop {
            "C03" => gen_c03(&mut rng, tier, false, None),
            "C06" => gen_c06(&mut rng, tier),
            "C07" => gen_c07(&mut rng, tier),
            "C08" => gen_c08(&mut rng, tier),
            "C09" => gen_c09(&mut rng, tier),
            "C10" => gen_c10(&mut rng, tier, index),
            "C11" => gen_c11(&mut rng, tier),
            "C12" => gen_c12(&mut rng, tier, false, index, verif_seed),
            "C13" => gen_c13(&mut rng, tier, index),
            "C15" => gen_c15(&mut rng, tier),
            _ => panic!("rfsim: no generator for property {}", prop),
        }
    };
    if case.threads.len() <= 1 {
        case.policy = Policy::Seq;
    }
    // swarm knob `host.level`: outside C13 (which walks the levels systematically) one run in four executes on a lesser
    // simulated host, so that the code the automatic planner falls back to (SSE planner, scalar planner, portable Rader
    // inside AVX plans without AVX2) also meets every other property's faults. Dedicated SIMD planners the lowered host
    // would decline are replaced by the automatic planner. Drawn last, so that the rest of the case does not depend on it.
    if prop != "C13" && rng.chance(0.25) {
        let host = crate::oracle::HOSTS[rng.below(4) as usize].1;
        lower_host(&mut case, host);
    }
    case
}

fn pk_ok(pk: PK, host: u32) -> bool {
    match pk {
        PK::Avx => host & 6 == 6,
        PK::Sse => host & 1 == 1,
        _ => true,
    }
}

fn respec(s: &mut Spec, host: u32) {
    match s {
        Spec::Planned(pk, _) => {
            if !pk_ok(*pk, host) {
                *pk = PK::Auto;
            }
        }
        Spec::Radix4Base(_, b) | Spec::Radix3Base(_, b) | Spec::Raders(b) | Spec::Bluestein(_, b) => respec(b, host),
        Spec::MixedRadix(a, b) | Spec::MixedRadixSmall(a, b) | Spec::GoodThomas(a, b) | Spec::GoodThomasSmall(a, b) => {
            respec(a, host);
            respec(b, host);
        }
        Spec::Ill(i) => {
            use crate::world::IllCtor::*;
            match i {
                Dirs(_, a, b) | NotCoprime(_, a, b) | SmallScratch(_, a, b) => {
                    respec(a, host);
                    respec(b, host);
                }
                RadersNotPrime(b) | BluesteinShort(_, b) => respec(b, host),
                _ => {}
            }
        }
        _ => {}
    }
}

pub fn lower_host(case: &mut Case, host: u32) {
    case.host = host;
    for pk in case.planners.iter_mut() {
        if !pk_ok(*pk, host) {
            *pk = PK::Auto;
        }
    }
    for d in case.insts.iter_mut() {
        respec(&mut d.spec, host);
    }
}
