//! Engine A: a deterministic baton-passing scheduler. Two interchangeable context-switch backends:
//!   * cargo feature `coro` (default; flavours rel / feat-*): every simulated thread is a stackful coroutine
//!     (corosensei) on the one OS thread that called `run`; giving up the baton is a ~20 ns stack switch;
//!   * without it (flavour asan, and whenever the crate is interpreted by Miri): parked real OS threads, one condition
//!     variable each; giving up the baton costs a futex round trip.
//! Decisions, steps, traces and event logs are computed by the same code in both.
//!
//! Exactly one simulated thread holds the baton. It gives it up only at a scheduling point: between
//! its operations, at simulated-mutex operations and at the `verif_hooks::sched_point` calls inside
//! RustFFT's chunk loops. Who runs next is decided by the run's PRNG (or by an explicit switch list in
//! replay mode) and never by the OS.

use crate::prng::{Hasher64, Rng};
use serde::{Deserialize, Serialize};
use std::cell::{Cell, RefCell};
use std::sync::{Arc, Condvar, Mutex};

#[derive(Clone, Debug, PartialEq, Serialize, Deserialize)]
pub enum Policy {
    /// no preemption: a thread runs until it finishes or blocks (fault-free baseline)
    Seq,
    /// round robin with the given quantum (in scheduling points)
    RoundRobin(u32),
    /// at each point switch with this probability to a uniformly chosen runnable thread
    Rand(f64),
    /// PCT: random priorities, `depth` priority change points over `est_steps`
    Pct { depth: u32, est_steps: u64 },
    /// follow an explicit switch list: (step, thread)
    Replay(Vec<(u64, u16)>),
}

#[derive(Clone, Copy, PartialEq, Debug)]
enum TState {
    Runnable,
    Blocked(usize),
    Finished,
}

pub struct SimAbort;

struct St {
    current: usize,
    state: Vec<TState>,
    step: u64,
    rng: Rng,
    policy: Policy,
    trace: Vec<(u64, u16)>,
    replay_pos: usize,
    prio: Vec<u64>,
    change_points: Vec<u64>,
    budget: u64,
    aborted: bool,
    violations: Vec<(String, String)>,
    log: Hasher64,
    inside: Vec<Option<u32>>,
    overlap_switches: u64,
    switches: u64,
    mutex_owner: Vec<Option<usize>>,
    site_hist: [u64; 32],
}

pub type Monitor = Box<dyn FnMut(u64) -> Option<(String, String)> + Send>;

pub struct Sched {
    st: Mutex<St>,
    cvs: Vec<Condvar>,
    done: Condvar,
    monitors: Mutex<Vec<Monitor>>,
    /// coroutine backend: address of each simulated thread's yielder (valid while its coroutine is alive)
    #[allow(dead_code)]
    yielders: Vec<std::sync::atomic::AtomicUsize>,
}

thread_local! {
    static CTX: RefCell<Option<(Arc<Sched>, usize)>> = const { RefCell::new(None) };
    static SUSPEND: Cell<u32> = const { Cell::new(0) };
    static HOOK_COUNT: Cell<u64> = const { Cell::new(0) };
    static HOOK_LIMIT: Cell<u64> = const { Cell::new(u64::MAX) };
    static BUDGET_HIT: Cell<u64> = const { Cell::new(0) };
}

/// The per-simulated-thread state that lives in thread-locals (scheduling-point counters and allowance here, the
/// arithmetic-crash budget of `Fx`, the reference-call step memo). With coroutines all simulated threads share one OS
/// thread, so the scheduler swaps this state at every context switch.
#[derive(Clone, Copy)]
pub struct TlsSnap {
    hook_count: u64,
    hook_limit: u64,
    budget_hit: u64,
    suspend: u32,
    fx: (u64, u64),
    last_ref: u64,
}
impl TlsSnap {
    pub fn fresh() -> TlsSnap {
        TlsSnap { hook_count: 0, hook_limit: u64::MAX, budget_hit: 0, suspend: 0, fx: (u64::MAX, 0), last_ref: 0 }
    }
    pub fn take() -> TlsSnap {
        TlsSnap {
            hook_count: HOOK_COUNT.with(|c| c.get()),
            hook_limit: HOOK_LIMIT.with(|c| c.get()),
            budget_hit: BUDGET_HIT.with(|c| c.get()),
            suspend: SUSPEND.with(|c| c.get()),
            fx: crate::elem::fx_tls_get(),
            last_ref: crate::exec::last_ref_get(),
        }
    }
    pub fn put(&self) {
        HOOK_COUNT.with(|c| c.set(self.hook_count));
        HOOK_LIMIT.with(|c| c.set(self.hook_limit));
        BUDGET_HIT.with(|c| c.set(self.budget_hit));
        SUSPEND.with(|c| c.set(self.suspend));
        crate::elem::fx_tls_set(self.fx);
        crate::exec::last_ref_set(self.last_ref);
    }
}

/// Panic payload raised by the hook when a call exceeds its step allowance (bounded liveness).
pub struct StepBudget;

/// Scheduling points this thread has passed so far (counted even while scheduling is suspended).
pub fn hook_count() -> u64 {
    HOOK_COUNT.with(|c| c.get())
}
/// Allows this thread `allow` more scheduling points; the point after that unwinds with `StepBudget`.
pub fn set_step_allowance(allow: Option<u64>) {
    let v = match allow {
        Some(a) => hook_count().saturating_add(a),
        None => u64::MAX,
    };
    HOOK_LIMIT.with(|l| l.set(v));
}
/// Returns and clears the number of allowance overruns on this thread.
pub fn take_budget_hits() -> u64 {
    BUDGET_HIT.with(|b| b.replace(0))
}

/// The function installed into `rustfft::verif_hooks::set_sched_hook`.
pub fn hook(site: u32) {
    let c = HOOK_COUNT.with(|c| {
        let v = c.get() + 1;
        c.set(v);
        v
    });
    if c > HOOK_LIMIT.with(|l| l.get()) {
        HOOK_LIMIT.with(|l| l.set(u64::MAX));
        BUDGET_HIT.with(|b| b.set(b.get() + 1));
        std::panic::resume_unwind(Box::new(StepBudget));
    }
    if SUSPEND.with(|s| s.get()) != 0 {
        return;
    }
    let ctx = CTX.with(|c| c.borrow().clone());
    if let Some((s, tid)) = ctx {
        s.point(tid, site);
    }
}

/// Runs `f` with scheduling points disabled on this thread (reference computations).
pub fn suspended<R>(f: impl FnOnce() -> R) -> R {
    SUSPEND.with(|s| s.set(s.get() + 1));
    struct G;
    impl Drop for G {
        fn drop(&mut self) {
            SUSPEND.with(|s| s.set(s.get() - 1));
        }
    }
    let _g = G;
    f()
}

pub fn current() -> Option<(Arc<Sched>, usize)> {
    CTX.with(|c| c.borrow().clone())
}

#[derive(Clone, Debug, Default, Serialize, Deserialize)]
pub struct SchedReport {
    pub steps: u64,
    pub switches: u64,
    pub overlap_switches: u64,
    pub trace: Vec<(u64, u16)>,
    pub trace_hash: u64,
    pub log_hash: u64,
    pub violations: Vec<(String, String)>,
    pub site_hist: Vec<u64>,
    pub aborted: bool,
}

/// Voluntary switches per run are capped where a switch is expensive (parked OS threads); with coroutines the cap is
/// only a backstop.
pub const SWITCH_CAP_CORO: u64 = 50_000;
pub const SWITCH_CAP_THREADS: u64 = 600;

/// Which context-switch backend this process uses: coroutines when compiled in (feature `coro`, not under Miri) unless
/// RFSIM_BACKEND=threads asks for parked OS threads. The thread backend is what confirms a violation before it is reported:
/// with coroutines all simulated threads share one OS thread and therefore any `thread_local!` state of the code under test,
/// which real threads would not.
pub fn use_coroutines() -> bool {
    static U: std::sync::OnceLock<bool> = std::sync::OnceLock::new();
    *U.get_or_init(|| cfg!(all(feature = "coro", not(miri))) && std::env::var("RFSIM_BACKEND").map(|v| v != "threads").unwrap_or(true))
}
pub const SITE_OP: u32 = 20;
pub const SITE_LOCK: u32 = 21;
pub const SITE_UNLOCK: u32 = 22;
pub const SITE_EXIT: u32 = 23;
pub const SITE_USER: u32 = 24;

impl Sched {
    pub fn new(nthreads: usize, policy: Policy, mut rng: Rng, budget: u64, nmutex: usize) -> Arc<Sched> {
        let mut prio = Vec::new();
        let mut change_points = Vec::new();
        if let Policy::Pct { depth, est_steps } = &policy {
            // distinct random priorities above `depth`
            let mut ids: Vec<u64> = (0..nthreads as u64).map(|i| i + *depth as u64 + 1).collect();
            rng.shuffle(&mut ids);
            prio = ids;
            for _ in 0..*depth {
                change_points.push(rng.below((*est_steps).max(1)));
            }
            change_points.sort();
        }
        Arc::new(Sched {
            st: Mutex::new(St {
                current: usize::MAX,
                state: vec![TState::Runnable; nthreads],
                step: 0,
                rng,
                policy,
                trace: Vec::new(),
                replay_pos: 0,
                prio,
                change_points,
                budget,
                aborted: false,
                violations: Vec::new(),
                log: Hasher64::default(),
                inside: vec![None; nthreads],
                overlap_switches: 0,
                switches: 0,
                mutex_owner: vec![None; nmutex],
                site_hist: [0; 32],
            }),
            cvs: (0..nthreads).map(|_| Condvar::new()).collect(),
            done: Condvar::new(),
            monitors: Mutex::new(Vec::new()),
            yielders: (0..nthreads).map(|_| std::sync::atomic::AtomicUsize::new(0)).collect(),
        })
    }

    pub fn add_monitor(&self, m: Monitor) {
        self.monitors.lock().unwrap().push(m);
    }

    /// Runs the thread bodies to completion under this scheduler and returns the report.
    pub fn run(self: &Arc<Self>, bodies: Vec<Box<dyn FnOnce() + Send>>) -> SchedReport {
        let n = bodies.len();
        assert_eq!(n, self.cvs.len());
        {
            let mut st = self.st.lock().unwrap();
            let first = st.pick_first(n);
            st.current = first;
            st.trace.push((0, first as u16));
        }
        #[cfg(all(feature = "coro", not(miri)))]
        {
            if use_coroutines() {
                // a fresh OS thread per run: thread-local state of the code under test does not leak from one run into the next
                let me = Arc::clone(self);
                let _ = std::thread::Builder::new().stack_size(1 << 20).spawn(move || me.run_coroutines(bodies)).expect("spawn").join();
            } else {
                self.run_threads(bodies);
            }
        }
        #[cfg(not(all(feature = "coro", not(miri))))]
        self.run_threads(bodies);
        let st = self.st.lock().unwrap();
        let mut th = Hasher64::default();
        for (s, t) in &st.trace {
            th.add(*s);
            th.add(*t as u64);
        }
        SchedReport {
            steps: st.step,
            switches: st.switches,
            overlap_switches: st.overlap_switches,
            trace: st.trace.clone(),
            trace_hash: th.get(),
            log_hash: st.log.get(),
            violations: st.violations.clone(),
            site_hist: st.site_hist.to_vec(),
            aborted: st.aborted,
        }
    }

    /// One body, whatever carries it: run it unless the run was aborted meanwhile, record a stray panic, leave.
    fn run_body(self: &Arc<Self>, tid: usize, body: Box<dyn FnOnce() + Send>) {
        let aborted = self.st.lock().unwrap().aborted;
        if !aborted {
            let r = std::panic::catch_unwind(std::panic::AssertUnwindSafe(body));
            if let Err(p) = r {
                if p.downcast_ref::<SimAbort>().is_none() {
                    let msg = crate::exec::panic_msg(&p);
                    let mut st = self.st.lock().unwrap();
                    st.violations.push(("harness.thread-panic".into(), msg));
                }
            }
        }
        self.exit(tid);
    }

    /// Coroutine backend: the calling OS thread resumes whichever simulated thread holds the baton until all have finished.
    #[cfg(all(feature = "coro", not(miri)))]
    fn run_coroutines(self: &Arc<Self>, bodies: Vec<Box<dyn FnOnce() + Send>>) {
        use corosensei::stack::DefaultStack;
        use corosensei::{Coroutine, CoroutineResult};
        use std::sync::atomic::Ordering;
        let n = bodies.len();
        let outer = TlsSnap::take();
        let outer_ctx = CTX.with(|c| c.borrow_mut().take());
        let mut snaps: Vec<TlsSnap> = vec![TlsSnap::fresh(); n];
        let mut coros: Vec<Option<Coroutine<(), (), ()>>> = Vec::with_capacity(n);
        for (tid, body) in bodies.into_iter().enumerate() {
            let me = Arc::clone(self);
            let stack = DefaultStack::new(1 << 20).expect("coroutine stack");
            coros.push(Some(Coroutine::with_stack(stack, move |y: &corosensei::Yielder<(), ()>, _: ()| {
                me.yielders[tid].store(y as *const _ as usize, Ordering::Relaxed);
                me.run_body(tid, body);
            })));
        }
        loop {
            let cur = self.st.lock().unwrap().current;
            if cur == usize::MAX {
                break;
            }
            let Some(co) = coros[cur].as_mut() else {
                // the baton went to a thread that has already finished: a scheduler bug, never a property violation
                self.st.lock().unwrap().violations.push(("harness.baton-to-finished".into(), format!("thread {}", cur)));
                break;
            };
            CTX.with(|c| *c.borrow_mut() = Some((Arc::clone(self), cur)));
            snaps[cur].put();
            let r = co.resume(());
            snaps[cur] = TlsSnap::take();
            if let CoroutineResult::Return(()) = r {
                coros[cur] = None;
            }
        }
        // anything still suspended (only after a harness error) is unwound by its destructor
        drop(coros);
        CTX.with(|c| *c.borrow_mut() = outer_ctx);
        outer.put();
    }

    fn run_threads(self: &Arc<Self>, bodies: Vec<Box<dyn FnOnce() + Send>>) {
        let mut handles = Vec::new();
        for (tid, body) in bodies.into_iter().enumerate() {
            let me = Arc::clone(self);
            let h = std::thread::Builder::new()
                .stack_size(1 << 20)
                .spawn(move || {
                    CTX.with(|c| *c.borrow_mut() = Some((Arc::clone(&me), tid)));
                    me.wait_for_baton(tid);
                    me.run_body(tid, body);
                    CTX.with(|c| *c.borrow_mut() = None);
                })
                .expect("spawn");
            handles.push(h);
        }
        {
            let mut st = self.st.lock().unwrap();
            while st.state.iter().any(|s| *s != TState::Finished) {
                st = self.done.wait(st).unwrap();
            }
        }
        for h in handles {
            let _ = h.join();
        }
    }

    fn wait_for_baton(&self, tid: usize) {
        let mut st = self.st.lock().unwrap();
        while st.current != tid {
            st = self.cvs[tid].wait(st).unwrap();
        }
    }

    /// The baton has been handed to somebody else: wait until it comes back to `tid`.
    fn park<'a>(&'a self, tid: usize, st: std::sync::MutexGuard<'a, St>) -> std::sync::MutexGuard<'a, St> {
        #[cfg(all(feature = "coro", not(miri)))]
        if use_coroutines() {
            drop(st);
            loop {
                let y = self.yielders[tid].load(std::sync::atomic::Ordering::Relaxed) as *const corosensei::Yielder<(), ()>;
                // SAFETY: the pointer was stored by this very coroutine when it started and the yielder lives as long as it does
                unsafe { (*y).suspend(()) };
                let st = self.st.lock().unwrap();
                if st.current == tid {
                    return st;
                }
            }
        }
        let mut st = st;
        while st.current != tid {
            st = self.cvs[tid].wait(st).unwrap();
        }
        st
    }

    fn hand_over(&self, st: &mut St, from: usize, to: usize) {
        if to != from {
            st.switches += 1;
            // an "interesting" switch: at least two threads are inside process_* of the same instance
            let mut seen: Vec<u32> = Vec::new();
            let mut overlap = false;
            for i in st.inside.iter().flatten() {
                if seen.contains(i) {
                    overlap = true;
                }
                seen.push(*i);
            }
            if overlap {
                st.overlap_switches += 1;
            }
            st.trace.push((st.step, to as u16));
        }
        st.current = to;
        if to != usize::MAX && to != from {
            self.cvs[to].notify_one();
        }
    }

    /// A scheduling point reached by the baton holder `tid`.
    pub fn point(&self, tid: usize, site: u32) {
        // monitors first: invariants are evaluated while the run proceeds
        let step_now;
        {
            let st = self.st.lock().unwrap();
            debug_assert_eq!(st.current, tid);
            step_now = st.step;
        }
        let mut found = Vec::new();
        {
            let mut ms = self.monitors.lock().unwrap();
            for m in ms.iter_mut() {
                if let Some(v) = m(step_now) {
                    found.push(v);
                }
            }
        }
        let mut st = self.st.lock().unwrap();
        for v in found {
            if st.violations.len() < 8 {
                st.violations.push(v);
            }
        }
        st.step += 1;
        st.site_hist[(site as usize) & 31] += 1;
        if st.aborted {
            drop(st);
            std::panic::resume_unwind(Box::new(SimAbort));
        }
        if st.step > st.budget {
            st.aborted = true;
            let (step, budget) = (st.step, st.budget);
            st.violations.push((
                "liveness.step-budget".into(),
                format!("run exceeded its budget of {} scheduling steps (at step {}, site {})", budget, step, site),
            ));
            // wake blocked threads so that they can wind down
            for s in st.state.iter_mut() {
                if let TState::Blocked(_) = s {
                    *s = TState::Runnable;
                }
            }
            drop(st);
            std::panic::resume_unwind(Box::new(SimAbort));
        }
        let next = st.decide(tid);
        if next != tid {
            self.hand_over(&mut st, tid, next);
            let st = self.park(tid, st);
            if st.aborted {
                drop(st);
                std::panic::resume_unwind(Box::new(SimAbort));
            }
        }
    }

    fn exit(&self, tid: usize) {
        let mut st = self.st.lock().unwrap();
        st.step += 1;
        st.site_hist[SITE_EXIT as usize] += 1;
        st.state[tid] = TState::Finished;
        st.inside[tid] = None;
        if st.aborted {
            for s in st.state.iter_mut() {
                if let TState::Blocked(_) = s {
                    *s = TState::Runnable;
                }
            }
        }
        let mut next = st.pick_other(tid);
        if next.is_none() && st.state.iter().any(|s| matches!(s, TState::Blocked(_))) {
            st.violations.push(("liveness.deadlock".into(), "all remaining threads blocked".into()));
            st.aborted = true;
            for s in st.state.iter_mut() {
                if let TState::Blocked(_) = s {
                    *s = TState::Runnable;
                }
            }
            next = st.pick_other(tid);
        }
        match next {
            Some(next) => self.hand_over(&mut st, tid, next),
            None => {
                st.current = usize::MAX;
                self.done.notify_all();
            }
        }
        if st.state.iter().all(|s| *s == TState::Finished) {
            self.done.notify_all();
        }
    }

    pub fn mutex_lock(&self, tid: usize, m: usize) {
        self.point(tid, SITE_LOCK);
        loop {
            let mut st = self.st.lock().unwrap();
            if st.mutex_owner[m].is_none() {
                st.mutex_owner[m] = Some(tid);
                let step = st.step;
                st.log.add(0x10c0 ^ ((m as u64) << 32) ^ ((tid as u64) << 48) ^ step);
                return;
            }
            st.state[tid] = TState::Blocked(m);
            st.step += 1;
            match st.pick_other(tid) {
                Some(next) => {
                    self.hand_over(&mut st, tid, next);
                    let st = self.park(tid, st);
                    if st.aborted {
                        drop(st);
                        std::panic::resume_unwind(Box::new(SimAbort));
                    }
                }
                None => {
                    st.aborted = true;
                    st.state[tid] = TState::Runnable;
                    st.violations.push(("liveness.deadlock".into(), format!("thread {} blocked on mutex {} with nobody runnable", tid, m)));
                    drop(st);
                    std::panic::resume_unwind(Box::new(SimAbort));
                }
            }
        }
    }

    pub fn mutex_unlock(&self, tid: usize, m: usize) {
        {
            let mut st = self.st.lock().unwrap();
            st.mutex_owner[m] = None;
            for s in st.state.iter_mut() {
                if *s == TState::Blocked(m) {
                    *s = TState::Runnable;
                }
            }
        }
        // not a point where an abort may be raised: unlock runs in destructors during unwinding
        let aborted = self.st.lock().unwrap().aborted;
        if !aborted && !std::thread::panicking() {
            self.point(tid, SITE_UNLOCK);
        }
    }

    pub fn set_inside(&self, tid: usize, inst: Option<u32>) {
        self.st.lock().unwrap().inside[tid] = inst;
    }

    /// Appends to the run's event log (only the baton holder calls this, so the order is the schedule's).
    pub fn log(&self, tid: usize, kind: u64, a: u64, b: u64) {
        let mut st = self.st.lock().unwrap();
        let step = st.step;
        st.log.add(step);
        st.log.add(tid as u64);
        st.log.add(kind);
        st.log.add(a);
        st.log.add(b);
    }

    pub fn violation(&self, class: &str, detail: String) {
        let mut st = self.st.lock().unwrap();
        if st.violations.len() < 8 {
            st.violations.push((class.into(), detail));
        }
    }

    pub fn step(&self) -> u64 {
        self.st.lock().unwrap().step
    }
}

impl St {
    fn runnable(&self) -> Vec<usize> {
        (0..self.state.len()).filter(|&i| self.state[i] == TState::Runnable).collect()
    }

    fn pick_first(&mut self, n: usize) -> usize {
        match &self.policy {
            Policy::Seq | Policy::RoundRobin(_) => 0,
            Policy::Rand(_) => self.rng.below(n as u64) as usize,
            Policy::Pct { .. } => (0..n).max_by_key(|&i| self.prio[i]).unwrap(),
            Policy::Replay(list) => {
                if let Some(&(0, t)) = list.first() {
                    self.replay_pos = 1;
                    (t as usize).min(n - 1)
                } else {
                    0
                }
            }
        }
    }

    /// Voluntary decision at a scheduling point: who runs next (may be `me`).
    fn decide(&mut self, me: usize) -> usize {
        let step = self.step;
        // a parked-thread hand-over costs tens of microseconds of wall clock: cap the voluntary switches per run
        // (the decision stays a pure function of the run's PRNG and step count)
        if self.switches >= (if use_coroutines() { SWITCH_CAP_CORO } else { SWITCH_CAP_THREADS }) && !matches!(self.policy, Policy::Replay(_)) {
            return me;
        }
        match &self.policy {
            Policy::Seq => me,
            Policy::RoundRobin(q) => {
                if step % (*q as u64).max(1) == 0 {
                    let r = self.runnable();
                    *r.iter().find(|&&t| t > me).or(r.first()).unwrap_or(&me)
                } else {
                    me
                }
            }
            Policy::Rand(p) => {
                let p = *p;
                if self.rng.chance(p) {
                    let r = self.runnable();
                    *self.rng.pick(&r)
                } else {
                    me
                }
            }
            Policy::Pct { .. } => {
                while let Some(&cp) = self.change_points.first() {
                    if cp <= step {
                        self.change_points.remove(0);
                        // lower the running thread below everyone else
                        self.prio[me] = self.change_points.len() as u64;
                    } else {
                        break;
                    }
                }
                let r = self.runnable();
                *r.iter().max_by_key(|&&t| self.prio[t]).unwrap_or(&me)
            }
            Policy::Replay(list) => {
                let mut next = me;
                while self.replay_pos < list.len() && list[self.replay_pos].0 < step {
                    self.replay_pos += 1;
                }
                if self.replay_pos < list.len() && list[self.replay_pos].0 == step {
                    let t = list[self.replay_pos].1 as usize;
                    self.replay_pos += 1;
                    if t < self.state.len() && self.state[t] == TState::Runnable {
                        next = t;
                    }
                }
                next
            }
        }
    }

    /// Forced decision: `me` finished or blocked.
    fn pick_other(&mut self, me: usize) -> Option<usize> {
        let r: Vec<usize> = self.runnable().into_iter().filter(|&t| t != me).collect();
        if r.is_empty() {
            return None;
        }
        let step = self.step;
        Some(match &self.policy {
            Policy::Seq => r[0],
            Policy::RoundRobin(_) => *r.iter().find(|&&t| t > me).unwrap_or(&r[0]),
            Policy::Rand(_) => *self.rng.pick(&r),
            Policy::Pct { .. } => *r.iter().max_by_key(|&&t| self.prio[t]).unwrap(),
            Policy::Replay(list) => {
                let mut next = r[0];
                while self.replay_pos < list.len() && list[self.replay_pos].0 < step {
                    self.replay_pos += 1;
                }
                if self.replay_pos < list.len() && list[self.replay_pos].0 == step {
                    let t = list[self.replay_pos].1 as usize;
                    self.replay_pos += 1;
                    if r.contains(&t) {
                        next = t;
                    }
                }
                next
            }
        })
    }
}

/// A mutex whose lock/unlock are scheduling points. Outside a simulation it is a plain mutex.
pub struct SimMutex<T> {
    pub id: usize,
    inner: Mutex<T>,
}
pub struct SimGuard<'a, T> {
    g: Option<std::sync::MutexGuard<'a, T>>,
    id: usize,
    ctx: Option<(Arc<Sched>, usize)>,
}
impl<T> SimMutex<T> {
    pub fn new(id: usize, v: T) -> Self {
        SimMutex { id, inner: Mutex::new(v) }
    }
    pub fn lock(&self) -> SimGuard<'_, T> {
        let ctx = if SUSPEND.with(|s| s.get()) != 0 { None } else { current() };
        if let Some((s, tid)) = &ctx {
            s.mutex_lock(*tid, self.id);
        }
        let g = match self.inner.lock() {
            Ok(g) => g,
            Err(p) => p.into_inner(),
        };
        SimGuard { g: Some(g), id: self.id, ctx }
    }
}
impl<T> std::ops::Deref for SimGuard<'_, T> {
    type Target = T;
    fn deref(&self) -> &T {
        self.g.as_ref().unwrap()
    }
}
impl<T> std::ops::DerefMut for SimGuard<'_, T> {
    fn deref_mut(&mut self) -> &mut T {
        self.g.as_mut().unwrap()
    }
}
impl<T> Drop for SimGuard<'_, T> {
    fn drop(&mut self) {
        self.g = None;
        if let Some((s, tid)) = &self.ctx {
            s.mutex_unlock(*tid, self.id);
        }
    }
}
