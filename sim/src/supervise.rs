//! Supervisor and worker processes. Workers execute strided ranges of run indices and report one line
//! per run; the supervisor aggregates, attributes crashes to the run announced last, minimises
//! violations, writes replay files and the evidence file.

use crate::exec::{self, RunOut, Violation};
use crate::minimise;
use crate::program::Case;
use crate::props::{self, Tier};
use crate::{arena, case_hash, prepare, sched};
use serde::{Deserialize, Serialize};
use std::collections::{BTreeMap, HashMap, HashSet};
use std::io::{BufRead, BufReader, Write};
use std::process::{Command, Stdio};
use std::sync::atomic::Ordering;
use std::sync::mpsc;
use std::time::{Duration, Instant};

#[derive(Serialize, Deserialize, Debug, Clone)]
pub struct RunLine {
    pub idx: u64,
    pub case_hash: u64,
    pub trace_hash: u64,
    pub log_hash: u64,
    pub nontrivial: bool,
    pub steps: u64,
    pub switches: u64,
    pub overlap: u64,
    pub calls: u64,
    pub threads: u32,
    pub ratio: f64,
}

#[derive(Serialize, Deserialize, Debug, Clone)]
pub struct ViolLine {
    pub idx: u64,
    pub v: Violation,
}

fn probe_map() -> BTreeMap<String, u64> {
    let mut m = BTreeMap::new();
    for (n, c) in rustfft::verif_hooks::probe_counts() {
        m.insert(format!("probe.{}", n), c);
    }
    for (i, c) in rustfft::verif_hooks::simd_entry_counts().iter().enumerate() {
        if *c > 0 {
            m.insert(format!("simd_entry.req{:#x}", i), *c);
        }
    }
    m
}

/// What makes a run count as non-trivial for the evidence (measured per run, rule stated in the evidence file).
fn nontrivial(prop: &str, case: &Case, out: &RunOut, probes_delta: &BTreeMap<String, u64>) -> bool {
    let c = |k: &str| out.counters.get(k).copied().unwrap_or(0);
    let p = |k: &str| probes_delta.get(k).copied().unwrap_or(0);
    match prop {
        "C11" => out.sched.overlap_switches > 0 && c("op.call") >= 2,
        "C10" => c("oracle.twin") >= 2 && (p("probe.avx.plan_fft.cache_hit") + p("probe.avx.replan.cache_base") + p("probe.avx.replan.cached_radix_tail") + p("probe.scalar.build_fft.cache_hit") + p("probe.sse.build_fft.cache_hit")) > 0,
        "C06" => c("op.roundtrip") >= 1,
        "C07" => c("fault.neighbour.poison") + c("op.split-chunk") >= 1,
        "C08" => c("op.grid-call") >= 24,
        "C09" => c("fault.shape") >= 1 && c("shape.good") >= 1,
        "C13" => c("op.hostcheck") >= 1 && c("oracle.dft-ref") >= 1,
        "C15" => c("op.call") + c("op.shared-immut") + c("fault.shape") >= 1,
        "C12" => c("oracle.dft-ref") >= 1 && c("fault.shape") + c("op.grid-call") + c("fault.neighbour.poison") + c("op.split-chunk") >= 1,
        "C03" => c("op.call") + c("fault.shape") + c("op.split-chunk") >= 1,
        _ => case.op_count() > 0,
    }
}

pub fn worker(a: &HashMap<String, String>) {
    crate::silence_panics();
    arena::install_fault_handler();
    rustfft::verif_hooks::set_sched_hook(Some(sched::hook));
    let prop = a.get("prop").expect("--prop").clone();
    let tier = Tier { thorough: a.get("tier").map(|s| s == "thorough").unwrap_or(false) };
    let seed: u64 = a.get("seed").and_then(|s| s.parse().ok()).unwrap_or(1);
    let start: u64 = a.get("start").and_then(|s| s.parse().ok()).unwrap_or(0);
    let stride: u64 = a.get("stride").and_then(|s| s.parse().ok()).unwrap_or(1);
    let count: u64 = a.get("count").and_then(|s| s.parse().ok()).unwrap_or(1);
    let indices: Option<Vec<u64>> = a.get("indices").map(|s| s.split(',').filter_map(|x| x.parse().ok()).collect());
    let deadline = a.get("deadline-s").and_then(|s| s.parse::<u64>().ok()).map(|s| Instant::now() + Duration::from_secs(s));
    let stdout = std::io::stdout();
    let mut totals: BTreeMap<String, u64> = BTreeMap::new();
    let list: Vec<u64> = match indices {
        Some(v) => v,
        None => {
            let mut v = Vec::new();
            let mut i = start;
            while i < count {
                v.push(i);
                i += stride;
            }
            v
        }
    };
    let mut done = 0u64;
    for idx in list {
        if let Some(d) = deadline {
            if Instant::now() > d {
                break;
            }
        }
        {
            let mut o = stdout.lock();
            let _ = writeln!(o, "B {}", idx);
            let _ = o.flush();
        }
        arena::CURRENT_RUN.store(idx, Ordering::Relaxed);
        let mut case = props::gen_case(&prop, tier, seed, idx, false);
        prepare(&mut case);
        let before = probe_map();
        let out = exec::run_case(&case, false);
        let after = probe_map();
        let mut delta = BTreeMap::new();
        for (k, v) in &after {
            let d = v - before.get(k).copied().unwrap_or(0);
            if d > 0 {
                delta.insert(k.clone(), d);
            }
        }
        for (k, v) in out.counters.iter().chain(delta.iter()) {
            *totals.entry(k.clone()).or_insert(0) += v;
        }
        for (i, c) in out.sched.site_hist.iter().enumerate() {
            if *c > 0 {
                *totals.entry(format!("sched.site.{}", i)).or_insert(0) += c;
            }
        }
        let policy = match &case.policy {
            sched::Policy::Seq => "seq",
            sched::Policy::RoundRobin(_) => "rr",
            sched::Policy::Rand(_) => "rand",
            sched::Policy::Pct { .. } => "pct",
            sched::Policy::Replay(_) => "replay",
        };
        *totals.entry(format!("policy.{}", policy)).or_insert(0) += 1;
        *totals.entry(format!("elem.{:?}", case.elem)).or_insert(0) += 1;
        *totals.entry(format!("host.{:#x}", case.host)).or_insert(0) += 1;
        if case.host != props::HOST_ALL {
            *totals.entry("fault.host.level".to_string()).or_insert(0) += 1;
        }
        let line = RunLine {
            idx,
            case_hash: case_hash(&case),
            trace_hash: out.sched.trace_hash,
            log_hash: out.log_hash,
            nontrivial: nontrivial(&prop, &case, &out, &delta),
            steps: out.sched.steps,
            switches: out.sched.switches,
            overlap: out.sched.overlap_switches,
            calls: out.calls,
            threads: case.threads.len() as u32,
            ratio: if out.worst_ratio.is_finite() { out.worst_ratio } else { 1e300 },
        };
        let mut o = stdout.lock();
        let _ = writeln!(o, "R {}", serde_json::to_string(&line).unwrap());
        for v in &out.violations {
            let _ = writeln!(o, "V {}", serde_json::to_string(&ViolLine { idx, v: v.clone() }).unwrap());
        }
        done += 1;
    }
    let mut o = stdout.lock();
    let _ = writeln!(o, "S {}", serde_json::to_string(&totals).unwrap());
    let _ = writeln!(o, "D {}", done);
    let _ = o.flush();
}

enum Msg {
    Begin(usize, u64),
    Run(usize, RunLine),
    Viol(usize, ViolLine),
    Stats(usize, BTreeMap<String, u64>),
    Fault(usize, String),
    Exit(usize, Option<i32>, Vec<String>),
}

struct WorkerSpec {
    bin: String,
    label: String,
    args: Vec<String>,
}

fn spawn_worker(wid: usize, spec: &WorkerSpec, tx: mpsc::Sender<Msg>, stderr_path: &str) -> std::process::Child {
    let errf = std::fs::File::create(stderr_path).expect("stderr file");
    let mut child = Command::new(&spec.bin)
        .arg("worker")
        .args(&spec.args)
        .stdout(Stdio::piped())
        .stderr(Stdio::from(errf))
        .env("ASAN_OPTIONS", "detect_leaks=0:abort_on_error=1:allow_user_segv_handler=1:handle_segv=0:handle_sigbus=0:handle_sigill=0")
        .spawn()
        .unwrap_or_else(|e| {
            eprintln!("rfsim: cannot spawn worker {}: {}", spec.bin, e);
            std::process::exit(2);
        });
    let out = child.stdout.take().unwrap();
    std::thread::spawn(move || {
        let rd = BufReader::new(out);
        let mut tail: Vec<String> = Vec::new();
        for line in rd.lines().map_while(Result::ok) {
            if let Some(r) = line.strip_prefix("B ") {
                if let Ok(i) = r.trim().parse() {
                    let _ = tx.send(Msg::Begin(wid, i));
                }
            } else if let Some(r) = line.strip_prefix("R ") {
                if let Ok(l) = serde_json::from_str::<RunLine>(r) {
                    let _ = tx.send(Msg::Run(wid, l));
                }
            } else if let Some(r) = line.strip_prefix("V ") {
                if let Ok(l) = serde_json::from_str::<ViolLine>(r) {
                    let _ = tx.send(Msg::Viol(wid, l));
                }
            } else if let Some(r) = line.strip_prefix("S ") {
                if let Ok(l) = serde_json::from_str(r) {
                    let _ = tx.send(Msg::Stats(wid, l));
                }
            } else if line.starts_with("FAULT ") {
                let _ = tx.send(Msg::Fault(wid, line.clone()));
            } else if !line.is_empty() && !line.starts_with("D ") {
                tail.push(line);
                if tail.len() > 20 {
                    tail.remove(0);
                }
            }
        }
        let _ = tx.send(Msg::Exit(wid, None, tail));
    });
    child
}

#[derive(Deserialize, Debug, Clone)]
pub struct KnownFinding {
    pub status: String,
    pub property: String,
    pub class: String,
    #[serde(default)]
    pub detail_contains: Vec<String>,
    #[serde(default)]
    pub what: String,
    #[serde(default)]
    pub commit: String,
}

pub fn load_known(path: &str) -> Vec<KnownFinding> {
    std::fs::read_to_string(path).ok().and_then(|t| serde_json::from_str::<serde_json::Value>(&t).ok()).and_then(|v| serde_json::from_value(v["findings"].clone()).ok()).unwrap_or_default()
}

pub fn known_match<'a>(known: &'a [KnownFinding], prop: &str, v: &Violation) -> Option<&'a KnownFinding> {
    known.iter().find(|k| k.status == "known" && k.property == prop && k.class == v.class && k.detail_contains.iter().all(|s| v.detail.contains(s)))
}

pub fn supervise(a: &HashMap<String, String>) -> i32 {
    let t0 = Instant::now();
    let prop = a.get("prop").expect("--prop").clone();
    let tier_s = a.get("tier").cloned().unwrap_or_else(|| "quick".into());
    let tier = Tier { thorough: tier_s == "thorough" };
    let seed: u64 = a.get("seed").and_then(|s| s.parse().ok()).unwrap_or(1);
    let runs: u64 = a.get("runs").and_then(|s| s.parse().ok()).unwrap_or(1000);
    let jobs: usize = a.get("jobs").and_then(|s| s.parse().ok()).unwrap_or(16);
    let flavour = a.get("flavour").cloned().unwrap_or_else(|| "rel".into());
    let level = a.get("level").cloned().unwrap_or_else(|| "exploration".into());
    let out_path = a.get("out").cloned().unwrap_or_else(|| format!("{}/evidence/.part-{}-{}.json", crate::home(), prop, flavour));
    let replay_dir = a.get("replay-dir").cloned().unwrap_or_else(|| format!("{}/replays", crate::home()));
    let known_path = a.get("known").cloned().unwrap_or_else(|| format!("{}/known_findings.json", crate::home()));
    let hang_s: u64 = a.get("hang-s").and_then(|s| s.parse().ok()).unwrap_or(if flavour == "asan" { 900 } else { 150 });
    let deadline_s: Option<u64> = a.get("deadline-s").and_then(|s| s.parse().ok());
    let me = std::env::current_exe().unwrap().to_string_lossy().to_string();
    // C13 runs the same workload through several feature-set builds of the simulator
    let bins: Vec<(String, String)> = match a.get("bins") {
        Some(s) => s.split(',').map(|x| { let mut it = x.splitn(2, '='); (it.next().unwrap().to_string(), it.next().unwrap().to_string()) }).collect(),
        None => vec![(flavour.clone(), me.clone())],
    };
    let _ = std::fs::create_dir_all(&replay_dir);
    let tmp = format!("{}/target/tmp/{}-{}-{}", crate::home(), prop, flavour, std::process::id());
    let _ = std::fs::create_dir_all(&tmp);
    let known = load_known(&known_path);

    let mut specs: Vec<WorkerSpec> = Vec::new();
    let per_bin = (jobs / bins.len()).max(1);
    for (label, bin) in &bins {
        for w in 0..per_bin {
            let mut args = vec!["--prop".to_string(), prop.clone(), "--tier".into(), tier_s.clone(), "--seed".into(), seed.to_string(), "--start".into(), w.to_string(), "--stride".into(), per_bin.to_string(), "--count".into(), runs.to_string()];
            if let Some(d) = deadline_s {
                args.push("--deadline-s".into());
                args.push(d.to_string());
            }
            specs.push(WorkerSpec { bin: bin.clone(), label: label.clone(), args });
        }
    }
    let (tx, rx) = mpsc::channel::<Msg>();
    let mut children: Vec<Option<std::process::Child>> = Vec::new();
    for (wid, s) in specs.iter().enumerate() {
        children.push(Some(spawn_worker(wid, s, tx.clone(), &format!("{}/w{}.err", tmp, wid))));
    }
    let nworkers = specs.len();
    let mut current: Vec<Option<u64>> = vec![None; nworkers];
    let mut last_progress: Vec<Instant> = vec![Instant::now(); nworkers];
    let mut fault_line: Vec<Option<String>> = vec![None; nworkers];
    let mut got_stats: Vec<bool> = vec![false; nworkers];
    // runs during which a worker stopped making progress (killed): judged afterwards with free-running threads
    let mut stalled: Vec<(String, u64)> = Vec::new();
    let mut hang_killed: Vec<bool> = vec![false; nworkers];
    let mut alive = nworkers;
    let mut lines: HashMap<(String, u64), RunLine> = HashMap::new();
    let mut totals: BTreeMap<String, u64> = BTreeMap::new();
    let mut viols: Vec<(String, ViolLine)> = Vec::new();
    let mut harness_errors: Vec<String> = Vec::new();
    let mut restarts = 0;
    while alive > 0 {
        match rx.recv_timeout(Duration::from_secs(5)) {
            Ok(Msg::Begin(w, i)) => {
                current[w] = Some(i);
                last_progress[w] = Instant::now();
            }
            Ok(Msg::Run(w, l)) => {
                last_progress[w] = Instant::now();
                lines.insert((specs[w].label.clone(), l.idx), l);
            }
            Ok(Msg::Viol(w, v)) => viols.push((specs[w].label.clone(), v)),
            Ok(Msg::Stats(w, s)) => {
                got_stats[w] = true;
                for (k, v) in s {
                    *totals.entry(k).or_insert(0) += v;
                }
            }
            Ok(Msg::Fault(w, l)) => fault_line[w] = Some(l),
            Ok(Msg::Exit(w, _, tail)) => {
                let status = children[w].as_mut().and_then(|c| c.wait().ok());
                let ok = status.map(|s| s.success()).unwrap_or(false) && got_stats[w];
                if !ok && hang_killed[w] {
                    // killed by the stall detector below: the run is judged afterwards; carry on with the next index
                    hang_killed[w] = false;
                    let idx = current[w].unwrap_or(u64::MAX);
                    restarts += 1;
                    if restarts <= 64 && idx != u64::MAX {
                        let next = idx + per_bin as u64;
                        if next < runs {
                            let mut s2 = WorkerSpec { bin: specs[w].bin.clone(), label: specs[w].label.clone(), args: specs[w].args.clone() };
                            for i in 0..s2.args.len() {
                                if s2.args[i] == "--start" {
                                    s2.args[i + 1] = next.to_string();
                                }
                            }
                            fault_line[w] = None;
                            current[w] = None;
                            last_progress[w] = Instant::now();
                            children[w] = Some(spawn_worker(w, &s2, tx.clone(), &format!("{}/w{}.err", tmp, w)));
                            continue;
                        }
                    }
                } else if !ok {
                    // crash of a worker process: attribute to the run it announced last
                    let idx = current[w].unwrap_or(u64::MAX);
                    let errtext = std::fs::read_to_string(format!("{}/w{}.err", tmp, w)).unwrap_or_default();
                    let asan = errtext.contains("AddressSanitizer");
                    let detail = format!(
                        "worker process died during run {} ({}): status {:?}; {}{}{}",
                        idx,
                        specs[w].label,
                        status.map(|s| s.to_string()),
                        fault_line[w].clone().unwrap_or_default(),
                        if asan { " AddressSanitizer: ".to_string() + errtext.lines().find(|l| l.contains("ERROR: AddressSanitizer")).unwrap_or("") } else { String::new() },
                        if tail.is_empty() { String::new() } else { format!(" | {}", tail.join(" / ")) }
                    );
                    let class = if asan { "c03.asan-report" } else if fault_line[w].is_some() { "crash.hw-fault" } else { "crash.abort" };
                    viols.push((specs[w].label.clone(), ViolLine { idx, v: Violation { class: class.into(), detail, thread: -1, op: -1 } }));
                    // carry on after the crashed run
                    restarts += 1;
                    if restarts <= 64 && idx != u64::MAX {
                        let stride: u64 = per_bin as u64;
                        let next = idx + stride;
                        if next < runs {
                            let mut s2 = WorkerSpec { bin: specs[w].bin.clone(), label: specs[w].label.clone(), args: specs[w].args.clone() };
                            for i in 0..s2.args.len() {
                                if s2.args[i] == "--start" {
                                    s2.args[i + 1] = next.to_string();
                                }
                            }
                            fault_line[w] = None;
                            current[w] = None;
                            last_progress[w] = Instant::now();
                            children[w] = Some(spawn_worker(w, &s2, tx.clone(), &format!("{}/w{}.err", tmp, w)));
                            continue;
                        }
                    }
                }
                alive -= 1;
            }
            Err(_) => {}
        }
        for w in 0..nworkers {
            if let Some(ch) = children[w].as_mut() {
                if last_progress[w].elapsed() > Duration::from_secs(hang_s) {
                    if let Ok(None) = ch.try_wait() {
                        let _ = ch.kill();
                        let idx = current[w].unwrap_or(u64::MAX);
                        hang_killed[w] = true;
                        if idx != u64::MAX {
                            stalled.push((specs[w].label.clone(), idx));
                        }
                        last_progress[w] = Instant::now();
                    }
                }
            }
        }
    }

    // stalled runs: a cooperative scheduler stalls when the code under test blocks on a primitive it does not own (a real
    // mutex held across a scheduling point) although real threads would merely wait. Such a run is executed again with
    // free-running OS threads: if it completes there it is judged by the usual oracles (and reported as a fallback in the
    // evidence); if it does not complete there either, the hang is genuine.
    let mut free_run_idx: HashSet<u64> = HashSet::new();
    stalled.sort();
    stalled.dedup();
    for (label, idx) in stalled.iter().take(8) {
        let bin = bins.iter().find(|(l, _)| l == label).map(|(_, b)| b.clone()).unwrap_or_else(|| me.clone());
        let mut case = props::gen_case(&prop, tier, seed, *idx, false);
        case.free_run = true;
        *totals.entry("fallback.free-run-cases".to_string()).or_insert(0) += 1;
        // generous: a slow run on a loaded machine must not be taken for a hang (only a genuine hang costs this long)
        let fallback_s = (6 * hang_s).max(900);
        match minimise::run_child(&bin, &case, &tmp, fallback_s) {
            minimise::ChildRes::Timeout => {
                viols.push((label.clone(), ViolLine { idx: *idx, v: Violation { class: "liveness.hang".into(), detail: format!("run {} made no progress for {} s under the simulator's scheduler and does not complete within {} s with free-running threads either: a call does not terminate", idx, hang_s, fallback_s), thread: -1, op: -1 } }));
            }
            minimise::ChildRes::Out(o) => {
                free_run_idx.insert(*idx);
                for v in o.violations {
                    viols.push((label.clone(), ViolLine { idx: *idx, v: Violation { detail: format!("[free-running fallback: the simulated schedule stalled on a lock inside the code under test] {}", v.detail), ..v } }));
                }
            }
            minimise::ChildRes::Crash(c, d) => {
                free_run_idx.insert(*idx);
                viols.push((label.clone(), ViolLine { idx: *idx, v: Violation { class: c, detail: d, thread: -1, op: -1 } }));
            }
        }
    }
    if stalled.len() > 8 {
        *totals.entry("fallback.stalled-not-rerun".to_string()).or_insert(0) += stalled.len() as u64 - 8;
    }

    // determinism pairs: re-run a sample in fresh processes at a different worker count and compare event-log hashes
    let mut det_pairs = 0u64;
    let mut det_mismatch = 0u64;
    {
        let mut sample: Vec<u64> = lines.keys().filter(|(l, _)| *l == bins[0].0).map(|(_, i)| *i).collect();
        sample.sort();
        let want = a.get("det-pairs").and_then(|s| s.parse::<usize>().ok()).unwrap_or(48).min(sample.len());
        if want > 0 {
            let step = (sample.len() / want).max(1);
            let sample: Vec<u64> = sample.iter().step_by(step).take(want).cloned().collect();
            let halves: Vec<Vec<u64>> = vec![sample.iter().step_by(3).cloned().collect(), sample.iter().skip(1).step_by(3).cloned().collect(), sample.iter().skip(2).step_by(3).cloned().collect()];
            let (tx2, rx2) = mpsc::channel::<Msg>();
            let mut kids = Vec::new();
            for (i, h) in halves.iter().enumerate() {
                if h.is_empty() {
                    continue;
                }
                let spec = WorkerSpec { bin: bins[0].1.clone(), label: bins[0].0.clone(), args: vec!["--prop".into(), prop.clone(), "--tier".into(), tier_s.clone(), "--seed".into(), seed.to_string(), "--indices".into(), h.iter().map(|x| x.to_string()).collect::<Vec<_>>().join(",")] };
                kids.push(spawn_worker(i, &spec, tx2.clone(), &format!("{}/d{}.err", tmp, i)));
            }
            drop(tx2);
            let mut open = kids.len();
            while open > 0 {
                match rx2.recv_timeout(Duration::from_secs(hang_s)) {
                    Ok(Msg::Run(_, l)) => {
                        if let Some(first) = lines.get(&(bins[0].0.clone(), l.idx)) {
                            det_pairs += 1;
                            if first.log_hash != l.log_hash || first.trace_hash != l.trace_hash || first.case_hash != l.case_hash {
                                det_mismatch += 1;
                                harness_errors.push(format!("determinism: run {} gave event-log hash {:#x} then {:#x}", l.idx, first.log_hash, l.log_hash));
                            }
                        }
                    }
                    Ok(Msg::Exit(..)) => open -= 1,
                    Ok(_) => {}
                    Err(_) => break,
                }
            }
            for mut k in kids {
                let _ = k.kill();
                let _ = k.wait();
            }
        }
    }

    // ----- violations: classify, minimise, write replays
    let own_prefix = prop.to_lowercase();
    let mut reported: Vec<(String, String)> = Vec::new(); // (class, replay path)
    let mut known_hits: Vec<String> = Vec::new();
    let mut seen_classes: HashSet<String> = HashSet::new();
    viols.sort_by_key(|(_, v)| v.idx);
    for (label, vl) in &viols {
        let v = &vl.v;
        let is_crash = v.class.starts_with("crash.");
        let own = props::owns(&own_prefix, &v.class) || v.class.starts_with("liveness");
        if v.class.starts_with("harness") {
            harness_errors.push(format!("run {}: {} {}", vl.idx, v.class, v.detail));
            continue;
        }
        // a call that kills the process neither returns what the isolated call returns nor panics: every claimed
        // property of the form "every call does X" is violated by it (primarily C03's business, and reported there
        // with the sanitizer's or the guard page's diagnosis)
        let class = if is_crash {
            format!("{}.{}", own_prefix, v.class.replace("crash.", "process-"))
        } else if own {
            v.class.clone()
        } else {
            continue;
        };
        let vv = Violation { class: class.clone(), ..v.clone() };
        if let Some(k) = known_match(&known, &prop, &vv) {
            let line = format!("KNOWN-FINDING: property={} {} (run {}: {})", prop, k.what, vl.idx, vv.class);
            if !known_hits.contains(&line) && known_hits.len() < 20 {
                known_hits.push(line);
            }
            continue;
        }
        // one minimised replay per violation class (the rest are listed in the evidence)
        if seen_classes.contains(&class) && reported.len() >= 1 {
            continue;
        }
        if reported.len() >= 4 {
            continue;
        }
        seen_classes.insert(class.clone());
        let bin = bins.iter().find(|(l, _)| l == label).map(|(_, b)| b.clone()).unwrap_or_else(|| me.clone());
        let mut case = props::gen_case(&prop, tier, seed, vl.idx, false);
        case.free_run = free_run_idx.contains(&vl.idx);
        // NB: PCT calibration happens in the child (exec-case) path through `prepare` only for generated cases;
        // the replay pins the policy explicitly instead
        let path = format!("{}/{}-{}-seed{}-run{}-{}.json", replay_dir, prop, label, seed, vl.idx, class.replace('.', "_"));
        let rep = minimise::minimise_and_write(&bin, &mut case, &vv, &prop, label, seed, vl.idx, &path, &tmp);
        match rep {
            Ok(()) => reported.push((class, path)),
            Err(e) if e.starts_with("ARTEFACT") => {
                *totals.entry("artefact.coroutine-shared-thread-locals".to_string()).or_insert(0) += 1;
                seen_classes.remove(&class);
                eprintln!("rfsim: run {}: dropped: {}", vl.idx, e);
            }
            Err(e) => {
                harness_errors.push(format!("run {}: violation {} did not reproduce in a fresh process: {}", vl.idx, vv.class, e));
            }
        }
    }

    // ----- evidence
    let mut distinct: HashSet<(String, u64, u64)> = HashSet::new();
    let mut distinct_cases: HashSet<u64> = HashSet::new();
    let mut steps = 0u64;
    let mut switches = 0u64;
    let mut overlap_runs = 0u64;
    let mut calls = 0u64;
    let mut worst = 0f64;
    let mut interleavings: HashSet<(u64, u64)> = HashSet::new();
    for ((label, _), l) in lines.iter() {
        distinct_cases.insert(l.case_hash);
        if l.nontrivial {
            // the same case under another feature-set build is another configuration
            distinct.insert((label.clone(), l.case_hash, l.trace_hash));
        }
        if l.overlap > 0 {
            overlap_runs += 1;
            interleavings.insert((l.case_hash, l.trace_hash));
        }
        steps += l.steps;
        switches += l.switches;
        calls += l.calls;
        if l.ratio > worst {
            worst = l.ratio;
        }
    }
    let wall = t0.elapsed().as_secs_f64();
    let mut samples = Vec::new();
    let mut idxs: Vec<u64> = lines.keys().map(|(_, i)| *i).collect();
    idxs.sort();
    idxs.dedup();
    for i in idxs.iter().filter(|i| lines.iter().any(|((_, j), l)| j == *i && l.nontrivial)).take(2) {
        let c = props::gen_case(&prop, tier, seed, *i, false);
        samples.push(serde_json::json!({"run_index": i, "case": c}));
    }
    if samples.is_empty() {
        if let Some(i) = idxs.first() {
            samples.push(serde_json::json!({"run_index": i, "case": props::gen_case(&prop, tier, seed, *i, false)}));
        }
    }
    let faults: BTreeMap<String, u64> = totals.iter().filter(|(k, _)| k.starts_with("fault.")).map(|(k, v)| (k.clone(), *v)).collect();
    let probes: BTreeMap<String, u64> = totals.iter().filter(|(k, _)| k.starts_with("probe.") || k.starts_with("simd_entry.")).map(|(k, v)| (k.clone(), *v)).collect();
    let part = serde_json::json!({
        "property_id": prop,
        "tier": tier_s,
        "seed": seed,
        "level": level,
        "engine": "A (native baton scheduler)",
        "flavour": flavour,
        "builds": bins.iter().map(|(l, _)| l.clone()).collect::<Vec<_>>(),
        "evaluations": lines.len(),
        "runs_requested": runs * bins.len() as u64,
        "distinct_cases": distinct_cases.len(),
        "distinct_nontrivial": distinct.len(),
        "distinct_interleavings_with_overlap": interleavings.len(),
        "runs_with_overlap_switch": overlap_runs,
        "scheduling_steps": steps,
        "context_switches": switches,
        "calls_into_rustfft_ops": calls,
        "worst_error_over_bound": worst,
        "faults_fired": faults,
        "probes": probes,
        "counters": totals,
        "determinism_pairs": det_pairs,
        "determinism_mismatches": det_mismatch,
        "worker_restarts": restarts,
        "violations": reported.iter().map(|(c, p)| serde_json::json!({"class": c, "replay": p})).collect::<Vec<_>>(),
        "violations_seen_total": viols.len(),
        "known_findings_matched": known_hits,
        "harness_errors": harness_errors,
        "samples": samples,
        "wall_s": wall,
        "runs_per_hour": if wall > 0.0 { (lines.len() as f64 / wall * 3600.0) as u64 } else { 0 },
    });
    std::fs::write(&out_path, serde_json::to_string_pretty(&part).unwrap()).expect("write evidence part");
    let _ = std::fs::remove_dir_all(&tmp);

    for l in &known_hits {
        println!("{}", l);
    }
    println!("rfsim: {} {} [{}]: {} runs ({} distinct non-trivial), {} steps, {} switches, {:.1}s, worst err/bound {:.3}, det pairs {}/{} ok", prop, tier_s, flavour, lines.len(), distinct.len(), steps, switches, wall, worst, det_pairs - det_mismatch, det_pairs);
    if !reported.is_empty() {
        for (c, p) in &reported {
            println!("VIOLATION property={} replay={} class={}", prop, p, c);
        }
        return 1;
    }
    if !harness_errors.is_empty() {
        for e in harness_errors.iter().take(10) {
            eprintln!("rfsim: harness error: {}", e);
        }
        return 2;
    }
    if (lines.len() as u64 + stalled.len() as u64) < runs * bins.len() as u64 && deadline_s.is_none() {
        eprintln!("rfsim: harness error: only {} of {} runs reported", lines.len(), runs * bins.len() as u64);
        return 2;
    }
    0
}

/// `worker-hashes`: run indices 0..runs over `jobs` worker processes and print "idx hash" lines (determinism self-test).
pub fn worker_hashes(a: &HashMap<String, String>) -> i32 {
    let prop = a.get("prop").expect("--prop").clone();
    let seed: u64 = a.get("seed").and_then(|s| s.parse().ok()).unwrap_or(1);
    let runs: u64 = a.get("runs").and_then(|s| s.parse().ok()).unwrap_or(100);
    let jobs: usize = a.get("jobs").and_then(|s| s.parse().ok()).unwrap_or(4);
    let tier_s = a.get("tier").cloned().unwrap_or_else(|| "quick".into());
    let me = std::env::current_exe().unwrap().to_string_lossy().to_string();
    let tmp = format!("{}/target/tmp/hashes-{}", crate::home(), std::process::id());
    let _ = std::fs::create_dir_all(&tmp);
    let (tx, rx) = mpsc::channel::<Msg>();
    let mut kids = Vec::new();
    for w in 0..jobs {
        let spec = WorkerSpec { bin: me.clone(), label: "rel".into(), args: vec!["--prop".into(), prop.clone(), "--tier".into(), tier_s.clone(), "--seed".into(), seed.to_string(), "--start".into(), w.to_string(), "--stride".into(), jobs.to_string(), "--count".into(), runs.to_string()] };
        kids.push(spawn_worker(w, &spec, tx.clone(), &format!("{}/w{}.err", tmp, w)));
    }
    drop(tx);
    let mut open = kids.len();
    let mut out: BTreeMap<u64, String> = BTreeMap::new();
    while open > 0 {
        match rx.recv_timeout(Duration::from_secs(600)) {
            Ok(Msg::Run(_, l)) => {
                out.insert(l.idx, format!("{:x}-{:x}-{:x}", l.case_hash, l.trace_hash, l.log_hash));
            }
            Ok(Msg::Exit(..)) => open -= 1,
            Ok(_) => {}
            Err(_) => return 2,
        }
    }
    for mut k in kids {
        let _ = k.wait();
    }
    let _ = std::fs::remove_dir_all(&tmp);
    for (i, h) in out {
        println!("{} {}", i, h);
    }
    0
}
