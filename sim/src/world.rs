//! Objects of a simulated world: planners (behind a simulated mutex), transform specifications
//! (planner-built or nested public constructors) and how they are built.

use crate::elem::Elem;
use rustfft::algorithm::butterflies::*;
use rustfft::algorithm::*;
use rustfft::{Fft, FftDirection, FftPlanner, FftPlannerAvx, FftPlannerScalar, FftPlannerSse};
use serde::{Deserialize, Serialize};
use std::sync::Arc;

#[derive(Clone, Copy, Debug, PartialEq, Eq, Hash, Serialize, Deserialize)]
pub enum PK {
    Auto,
    Scalar,
    Sse,
    Avx,
}
pub const PKS: [PK; 4] = [PK::Auto, PK::Scalar, PK::Sse, PK::Avx];

#[derive(Clone, Copy, Debug, PartialEq, Eq, Hash, Serialize, Deserialize)]
pub enum Dir {
    Fwd,
    Inv,
}
impl Dir {
    pub fn to(self) -> FftDirection {
        match self {
            Dir::Fwd => FftDirection::Forward,
            Dir::Inv => FftDirection::Inverse,
        }
    }
    pub fn from(d: FftDirection) -> Dir {
        match d {
            FftDirection::Forward => Dir::Fwd,
            FftDirection::Inverse => Dir::Inv,
        }
    }
    pub fn opp(self) -> Dir {
        match self {
            Dir::Fwd => Dir::Inv,
            Dir::Inv => Dir::Fwd,
        }
    }
    pub fn inverse(self) -> bool {
        self == Dir::Inv
    }
}

pub enum AnyPlanner<T: Elem> {
    Auto(FftPlanner<T>),
    Scalar(FftPlannerScalar<T>),
    Sse(FftPlannerSse<T>),
    Avx(FftPlannerAvx<T>),
}
impl<T: Elem> AnyPlanner<T> {
    /// None when the dedicated SIMD planner declines (instruction set masked or compiled out, or T not f32/f64)
    pub fn new(kind: PK) -> Option<Self> {
        match kind {
            PK::Auto => Some(AnyPlanner::Auto(FftPlanner::new())),
            PK::Scalar => Some(AnyPlanner::Scalar(FftPlannerScalar::new())),
            PK::Sse => FftPlannerSse::new().ok().map(AnyPlanner::Sse),
            PK::Avx => FftPlannerAvx::new().ok().map(AnyPlanner::Avx),
        }
    }
    pub fn plan(&mut self, len: usize, dir: Dir) -> Arc<dyn Fft<T>> {
        match self {
            AnyPlanner::Auto(p) => p.plan_fft(len, dir.to()),
            AnyPlanner::Scalar(p) => p.plan_fft(len, dir.to()),
            AnyPlanner::Sse(p) => p.plan_fft(len, dir.to()),
            AnyPlanner::Avx(p) => p.plan_fft(len, dir.to()),
        }
    }
    /// plan through the direction-specific convenience entry points
    pub fn plan_via(&mut self, len: usize, dir: Dir) -> Arc<dyn Fft<T>> {
        match (self, dir) {
            (AnyPlanner::Auto(p), Dir::Fwd) => p.plan_fft_forward(len),
            (AnyPlanner::Auto(p), Dir::Inv) => p.plan_fft_inverse(len),
            (AnyPlanner::Scalar(p), Dir::Fwd) => p.plan_fft_forward(len),
            (AnyPlanner::Scalar(p), Dir::Inv) => p.plan_fft_inverse(len),
            (AnyPlanner::Sse(p), Dir::Fwd) => p.plan_fft_forward(len),
            (AnyPlanner::Sse(p), Dir::Inv) => p.plan_fft_inverse(len),
            (AnyPlanner::Avx(p), Dir::Fwd) => p.plan_fft_forward(len),
            (AnyPlanner::Avx(p), Dir::Inv) => p.plan_fft_inverse(len),
        }
    }
}

/// A transform specification: how to obtain an instance through the public safe API.
#[derive(Clone, Debug, PartialEq, Eq, Hash, Serialize, Deserialize)]
pub enum Spec {
    /// planned by a fresh planner of this kind
    Planned(PK, usize),
    Butterfly(usize),
    Dft(usize),
    Radix4(usize),
    Radix3(usize),
    Radix4Base(u32, Box<Spec>),
    Radix3Base(u32, Box<Spec>),
    MixedRadix(Box<Spec>, Box<Spec>),
    MixedRadixSmall(Box<Spec>, Box<Spec>),
    GoodThomas(Box<Spec>, Box<Spec>),
    GoodThomasSmall(Box<Spec>, Box<Spec>),
    Raders(Box<Spec>),
    Bluestein(usize, Box<Spec>),
    /// fault `ctor.precondition`: a documented constructor precondition is violated by the caller
    Ill(IllCtor),
}

/// Constructions through the safe public API that violate a documented precondition (caller error at construction time).
#[derive(Clone, Debug, PartialEq, Eq, Hash, Serialize, Deserialize)]
pub enum IllCtor {
    /// which: 0 MixedRadix, 1 MixedRadixSmall, 2 GoodThomasAlgorithm, 3 GoodThomasAlgorithmSmall; the second inner transform has the opposite direction
    Dirs(u8, Box<Spec>, Box<Spec>),
    /// GoodThomasAlgorithm (false) / GoodThomasAlgorithmSmall (true) over lengths that are not coprime
    NotCoprime(bool, Box<Spec>, Box<Spec>),
    /// MixedRadixSmall (false) / GoodThomasAlgorithmSmall (true) over inner transforms whose scratch needs break the documented limit
    SmallScratch(bool, Box<Spec>, Box<Spec>),
    /// RadersAlgorithm with inner.len() + 1 not prime
    RadersNotPrime(Box<Spec>),
    /// BluesteinsAlgorithm with inner.len() < 2*len - 1
    BluesteinShort(usize, Box<Spec>),
    /// Radix4::new with a length that is not a power of two
    Radix4Len(usize),
    /// Radix3::new with a length that is not a power of three
    Radix3Len(usize),
}

pub const BUTTERFLIES: [usize; 21] = [1, 2, 3, 4, 5, 6, 7, 8, 9, 11, 12, 13, 16, 17, 19, 23, 24, 27, 29, 31, 32];

impl Spec {
    pub fn len(&self) -> usize {
        match self {
            Spec::Planned(_, n) | Spec::Butterfly(n) | Spec::Dft(n) | Spec::Radix4(n) | Spec::Radix3(n) => *n,
            Spec::Radix4Base(k, b) => b.len() << (2 * k),
            Spec::Radix3Base(k, b) => b.len() * 3usize.pow(*k),
            Spec::MixedRadix(a, b) | Spec::MixedRadixSmall(a, b) | Spec::GoodThomas(a, b) | Spec::GoodThomasSmall(a, b) => a.len() * b.len(),
            Spec::Raders(i) => i.len() + 1,
            Spec::Bluestein(n, _) => *n,
            Spec::Ill(i) => match i {
                IllCtor::Dirs(_, a, b) | IllCtor::NotCoprime(_, a, b) | IllCtor::SmallScratch(_, a, b) => a.len() * b.len(),
                IllCtor::RadersNotPrime(i) => i.len() + 1,
                IllCtor::BluesteinShort(n, _) | IllCtor::Radix4Len(n) | IllCtor::Radix3Len(n) => *n,
            },
        }
    }
    pub fn is_ill(&self) -> bool {
        matches!(self, Spec::Ill(_))
    }
    pub fn short(&self) -> String {
        match self {
            Spec::Planned(k, n) => format!("{:?}({})", k, n),
            Spec::Butterfly(n) => format!("B{}", n),
            Spec::Dft(n) => format!("Dft{}", n),
            Spec::Radix4(n) => format!("R4({})", n),
            Spec::Radix3(n) => format!("R3({})", n),
            Spec::Radix4Base(k, b) => format!("R4b({},{})", k, b.short()),
            Spec::Radix3Base(k, b) => format!("R3b({},{})", k, b.short()),
            Spec::MixedRadix(a, b) => format!("MR({},{})", a.short(), b.short()),
            Spec::MixedRadixSmall(a, b) => format!("MRs({},{})", a.short(), b.short()),
            Spec::GoodThomas(a, b) => format!("GT({},{})", a.short(), b.short()),
            Spec::GoodThomasSmall(a, b) => format!("GTs({},{})", a.short(), b.short()),
            Spec::Raders(i) => format!("Rad({})", i.short()),
            Spec::Bluestein(n, i) => format!("Blu({},{})", n, i.short()),
            Spec::Ill(i) => match i {
                IllCtor::Dirs(w, a, b) => format!("ILL-dirs{}({},{})", w, a.short(), b.short()),
                IllCtor::NotCoprime(s, a, b) => format!("ILL-GT{}({},{})", if *s { "s" } else { "" }, a.short(), b.short()),
                IllCtor::SmallScratch(g, a, b) => format!("ILL-{}s-scratch({},{})", if *g { "GT" } else { "MR" }, a.short(), b.short()),
                IllCtor::RadersNotPrime(i) => format!("ILL-Rad({})", i.short()),
                IllCtor::BluesteinShort(n, i) => format!("ILL-Blu({},{})", n, i.short()),
                IllCtor::Radix4Len(n) => format!("ILL-R4({})", n),
                IllCtor::Radix3Len(n) => format!("ILL-R3({})", n),
            },
        }
    }
    pub fn is_planned(&self) -> bool {
        matches!(self, Spec::Planned(..))
    }
}

fn wrap<T: Elem>(f: impl Fft<T> + 'static) -> Arc<dyn Fft<T>> {
    Arc::new(f)
}

pub fn butterfly<T: Elem>(n: usize, d: FftDirection) -> Arc<dyn Fft<T>> {
    match n {
        1 => wrap(Butterfly1::new(d)),
        2 => wrap(Butterfly2::new(d)),
        3 => wrap(Butterfly3::new(d)),
        4 => wrap(Butterfly4::new(d)),
        5 => wrap(Butterfly5::new(d)),
        6 => wrap(Butterfly6::new(d)),
        7 => wrap(Butterfly7::new(d)),
        8 => wrap(Butterfly8::new(d)),
        9 => wrap(Butterfly9::new(d)),
        11 => wrap(Butterfly11::new(d)),
        12 => wrap(Butterfly12::new(d)),
        13 => wrap(Butterfly13::new(d)),
        16 => wrap(Butterfly16::new(d)),
        17 => wrap(Butterfly17::new(d)),
        19 => wrap(Butterfly19::new(d)),
        23 => wrap(Butterfly23::new(d)),
        24 => wrap(Butterfly24::new(d)),
        27 => wrap(Butterfly27::new(d)),
        29 => wrap(Butterfly29::new(d)),
        31 => wrap(Butterfly31::new(d)),
        32 => wrap(Butterfly32::new(d)),
        _ => panic!("rfsim: no butterfly of length {}", n),
    }
}

/// Builds the instance a spec denotes. Returns Err(reason) when a `*Small` precondition on the inner
/// transforms' scratch needs (readable only after building them) is not met, or a SIMD planner declines.
pub fn build<T: Elem>(spec: &Spec, dir: Dir) -> Result<Arc<dyn Fft<T>>, String> {
    let d = dir.to();
    Ok(match spec {
        Spec::Planned(k, n) => {
            let mut p = AnyPlanner::<T>::new(*k).ok_or_else(|| format!("planner {:?} unavailable", k))?;
            p.plan(*n, dir)
        }
        Spec::Butterfly(n) => butterfly(*n, d),
        Spec::Dft(n) => wrap(Dft::new(*n, d)),
        Spec::Radix4(n) => wrap(Radix4::new(*n, d)),
        Spec::Radix3(n) => wrap(Radix3::new(*n, d)),
        Spec::Radix4Base(k, b) => wrap(Radix4::new_with_base(*k, build(b, dir)?)),
        Spec::Radix3Base(k, b) => wrap(Radix3::new_with_base(*k, build(b, dir)?)),
        Spec::MixedRadix(a, b) => wrap(MixedRadix::new(build(a, dir)?, build(b, dir)?)),
        Spec::GoodThomas(a, b) => wrap(GoodThomasAlgorithm::new(build(a, dir)?, build(b, dir)?)),
        Spec::MixedRadixSmall(a, b) => {
            let (fa, fb) = (build::<T>(a, dir)?, build::<T>(b, dir)?);
            small_ok(&fa, &fb)?;
            wrap(MixedRadixSmall::new(fa, fb))
        }
        Spec::GoodThomasSmall(a, b) => {
            let (fa, fb) = (build::<T>(a, dir)?, build::<T>(b, dir)?);
            small_ok(&fa, &fb)?;
            wrap(GoodThomasAlgorithmSmall::new(fa, fb))
        }
        Spec::Raders(i) => wrap(RadersAlgorithm::new(build(i, dir)?)),
        Spec::Bluestein(n, i) => wrap(BluesteinsAlgorithm::new(*n, build(i, dir)?)),
        Spec::Ill(ill) => match ill {
            IllCtor::Dirs(which, a, b) => {
                let (fa, fb) = (build::<T>(a, dir)?, build::<T>(b, dir.opp())?);
                match which {
                    0 => wrap(MixedRadix::new(fa, fb)),
                    1 => wrap(MixedRadixSmall::new(fa, fb)),
                    2 => wrap(GoodThomasAlgorithm::new(fa, fb)),
                    _ => wrap(GoodThomasAlgorithmSmall::new(fa, fb)),
                }
            }
            IllCtor::NotCoprime(small, a, b) => {
                let (fa, fb) = (build::<T>(a, dir)?, build::<T>(b, dir)?);
                if *small {
                    wrap(GoodThomasAlgorithmSmall::new(fa, fb))
                } else {
                    wrap(GoodThomasAlgorithm::new(fa, fb))
                }
            }
            IllCtor::SmallScratch(gt, a, b) => {
                let (fa, fb) = (build::<T>(a, dir)?, build::<T>(b, dir)?);
                if small_ok(&fa, &fb).is_ok() {
                    return Err("ill-ctor: the inner transforms happen to meet the *Small limits".into());
                }
                if *gt {
                    wrap(GoodThomasAlgorithmSmall::new(fa, fb))
                } else {
                    wrap(MixedRadixSmall::new(fa, fb))
                }
            }
            IllCtor::RadersNotPrime(i) => wrap(RadersAlgorithm::new(build(i, dir)?)),
            IllCtor::BluesteinShort(n, i) => wrap(BluesteinsAlgorithm::new(*n, build(i, dir)?)),
            IllCtor::Radix4Len(n) => wrap(Radix4::new(*n, d)),
            IllCtor::Radix3Len(n) => wrap(Radix3::new(*n, d)),
        },
    })
}

fn small_ok<T: Elem>(a: &Arc<dyn Fft<T>>, b: &Arc<dyn Fft<T>>) -> Result<(), String> {
    if a.get_outofplace_scratch_len() != 0
        || b.get_outofplace_scratch_len() != 0
        || a.get_inplace_scratch_len() > a.len()
        || b.get_inplace_scratch_len() > b.len()
    {
        return Err("documented *Small precondition on inner scratch not met".into());
    }
    Ok(())
}

pub fn is_prime(n: usize) -> bool {
    if n < 2 {
        return false;
    }
    let mut i = 2;
    while i * i <= n {
        if n % i == 0 {
            return false;
        }
        i += 1;
    }
    true
}
pub fn gcd(a: usize, b: usize) -> usize {
    if b == 0 {
        a
    } else {
        gcd(b, a % b)
    }
}
