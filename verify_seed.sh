#!/bin/bash
# usage: verify_seed.sh <ID> <m>   e.g. verify_seed.sh C09 m1
# Confirms, in the scratch worktree /tmp/wt-<ID> (never in /repo), that the seeded change
#   (1) applies, (2) builds with and without --features verif_hooks, (3) passes the existing suite unedited,
#   (4) makes its demonstration fail, and (5) the demonstration passes again without the change.
# Writes the outcome to /tmp/seed-<ID>/<m>/verified.json.
ID="$1"; M="$2"; D=/tmp/seed-$ID/$M; W=${WT:-/tmp/wt-$ID}
export CARGO_NET_OFFLINE=true
cd "$W" || exit 2
git checkout -q -- . ; git clean -fdq tests examples src 2>/dev/null
DEMO_CMD=$(python3 -c "import json;print(json.load(open('$D/meta.json'))['demo_cmd'])")
git apply "$D/patch.diff" || { echo "{\"applies\": false}" > "$D/verified.json"; exit 1; }
B1=fail; B2=fail; SUITE=fail
cargo build --offline -j 8 >/dev/null 2>&1 && B1=ok
cargo build --offline -j 8 --features verif_hooks >/dev/null 2>&1 && B2=ok
cargo test --workspace --no-fail-fast --offline -j 8 > "$D/suite.verify.log" 2>&1 && SUITE=ok
PASSED=$(grep -E "^test result: ok" "$D/suite.verify.log" | sed -E 's/.* ([0-9]+) passed.*/\1/' | paste -sd+ | bc)
bash -c "$DEMO_CMD" > "$D/demo.with.log" 2>&1; WITH=$?
git checkout -q -- .
bash -c "$DEMO_CMD" > "$D/demo.without.log" 2>&1; WITHOUT=$?
git checkout -q -- . ; git clean -fdq tests examples src 2>/dev/null
python3 - <<E
import json
json.dump({"applies": True, "build_default": "$B1", "build_verif_hooks": "$B2", "existing_suite": "$SUITE", "tests_passed_incl_doctests": "$PASSED",
           "demo_exit_with_change": $WITH, "demo_exit_without_change": $WITHOUT,
           "confirmed": ("$B1"=="ok" and "$B2"=="ok" and "$SUITE"=="ok" and $WITH != 0 and $WITHOUT == 0)}, open("$D/verified.json","w"), indent=1)
print(open("$D/verified.json").read())
E
