//! C11 compile-time obligation: planners and transform instances are Send and Sync.
//! A failure of this crate with E0277 naming Send/Sync is the violation.
use rustfft::algorithm::butterflies::*;
use rustfft::algorithm::*;
use rustfft::*;
use std::sync::Arc;

fn w<T: Send + Sync>() {}

pub fn obligations() {
    w::<FftPlanner<f32>>();
    w::<FftPlanner<f64>>();
    w::<FftPlannerScalar<f32>>();
    w::<FftPlannerScalar<f64>>();
    w::<FftPlannerSse<f32>>();
    w::<FftPlannerSse<f64>>();
    w::<FftPlannerAvx<f32>>();
    w::<FftPlannerAvx<f64>>();
    w::<FftPlannerNeon<f32>>();
    w::<FftPlannerWasmSimd<f64>>();
    w::<Arc<dyn Fft<f32>>>();
    w::<Arc<dyn Fft<f64>>>();
    w::<Box<dyn Fft<f32>>>();
    w::<Dft<f32>>();
    w::<Radix4<f64>>();
    w::<Radix3<f32>>();
    w::<MixedRadix<f64>>();
    w::<MixedRadixSmall<f32>>();
    w::<GoodThomasAlgorithm<f64>>();
    w::<GoodThomasAlgorithmSmall<f32>>();
    w::<RadersAlgorithm<f64>>();
    w::<BluesteinsAlgorithm<f32>>();
    w::<Butterfly1<f32>>();
    w::<Butterfly8<f64>>();
    w::<Butterfly16<f32>>();
    w::<Butterfly32<f64>>();
    w::<Butterfly31<f32>>();
}

/// Generic over the element type: the bound must hold for every T: FftNum, not only f32/f64
pub fn generic<T: FftNum>() {
    w::<FftPlanner<T>>();
    w::<FftPlannerScalar<T>>();
    w::<FftPlannerSse<T>>();
    w::<FftPlannerAvx<T>>();
    w::<Arc<dyn Fft<T>>>();
}
